// stacksim: C10 clause (iii) — values nested up to the default limit can be copied, compared, serialized and
// destroyed within a small fixed stack, and destruction stays stack-safe at any depth.  Built WITHOUT
// sanitizers (ASan inflates frames); the operation runs on a thread whose stack size the plan chooses, with
// a guard page: overflow -> SIGSEGV -> classified crash.
#include "../core/mini.hpp"
#include "../core/prng.hpp"
#include "../core/worker.hpp"
#include <jsoncons/json.hpp>
#include <jsoncons_ext/cbor/cbor.hpp>
#include <jsoncons_ext/msgpack/msgpack.hpp>
#include <pthread.h>
#include <cstring>

using namespace sim;
using namespace jsoncons;

namespace stacksim {

static const char* const ops[] = {"copy", "compare", "dump", "dump_pretty", "destroy", "assign", "encode_cbor", "encode_msgpack", "parse", "parse_destroy", "swap_destroy"};
static const char* const kinds[] = {"array", "object", "mixed"};

MVal generate(const std::string&, uint64_t seed, uint64_t idx) {
    MVal p = MVal::obj();
    p.set("engine", MVal::str("stacksim")); p.set("seed", MVal::uinteger(seed)); p.set("idx", MVal::uinteger(idx));
    size_t nops = sizeof ops / sizeof ops[0];
    p.set("op", MVal::str(ops[idx % nops]));
    p.set("kind", MVal::str(kinds[(idx / nops) % 3]));
    p.set("ordered", MVal::boolean(((idx / (nops * 3)) & 1) != 0));
    uint64_t round = idx / (nops * 6);
    // depth: the default max_nesting_depth (1024) and its neighbours; deep destruction far beyond
    static const uint64_t depths[] = {1024, 1023, 512, 1000};
    uint64_t depth = depths[round % 4];
    std::string op = ops[idx % nops];
    if ((op == "destroy" || op == "swap_destroy") && (round & 1)) depth = 200000;
    p.set("depth", MVal::uinteger(depth));
    p.set("stack_kb", MVal::uinteger(512));
    return p;
}

template <class Json> static Json build(const std::string& kind, size_t depth) {
    Json cur(1);
    for (size_t i = 0; i < depth; ++i) {
        bool obj = kind == "object" || (kind == "mixed" && (i & 1));
        if (obj) { Json o(json_object_arg); o.insert_or_assign("k", std::move(cur)); cur = std::move(o); }
        else { Json a(json_array_arg); a.push_back(std::move(cur)); cur = std::move(a); }
    }
    return cur;
}
static std::string text_of(const std::string& kind, size_t depth) {
    std::string s, e;
    for (size_t i = 0; i < depth; ++i) { bool obj = kind == "object" || (kind == "mixed" && ((depth - 1 - i) & 1)); if (obj) { s += "{\"k\":"; e = "}" + e; } else { s += "["; e = "]" + e; } }
    return s + "1" + e;
}

struct Job { std::string op, kind, text; size_t depth; bool ordered; std::string result; void* v1 = nullptr; void* v2 = nullptr; };

template <class Json> static void body(Job& j) {
    Json* v = static_cast<Json*>(j.v1); Json* w = static_cast<Json*>(j.v2);
    if (j.op == "copy") { Json c(*v); j.result = c.is_null() ? "null" : "copied"; }
    else if (j.op == "compare") { j.result = (*v == *w) ? "equal" : "different"; if (*v < *w) j.result += "<"; }
    else if (j.op == "dump") { std::string s; v->dump(s); j.result = std::to_string(s.size()); }
    else if (j.op == "dump_pretty") { std::string s; v->dump_pretty(s); j.result = std::to_string(s.size()); }
    else if (j.op == "destroy") { delete v; j.v1 = nullptr; j.result = "destroyed"; }
    else if (j.op == "swap_destroy") { { Json t; t.swap(*v); } j.result = "destroyed"; }
    else if (j.op == "assign") { Json c(1); c = *v; *w = c; j.result = "assigned"; }
    else if (j.op == "encode_cbor") { std::vector<uint8_t> b; auto o = cbor::cbor_options{}.max_nesting_depth(2000); cbor::encode_cbor(*v, b, o); j.result = std::to_string(b.size()); }
    else if (j.op == "encode_msgpack") { std::vector<uint8_t> b; auto o = msgpack::msgpack_options{}.max_nesting_depth(2000); msgpack::encode_msgpack(*v, b, o); j.result = std::to_string(b.size()); }
    else if (j.op == "parse") { Json p = Json::parse(j.text); j.result = p.is_null() ? "null" : "parsed"; }
    else if (j.op == "parse_destroy") { { Json p = Json::parse(j.text); } j.result = "parsed+destroyed"; }
}
static void* thread_main(void* arg) {
    Job& j = *static_cast<Job*>(arg);
    try { if (j.ordered) body<ojson>(j); else body<json>(j); }
    catch (const std::exception& e) { j.result = std::string("EXC:") + e.what(); }
    return nullptr;
}

Result execute(MVal& plan, Stats& st) {
    Result res;
    Job j; j.op = plan.gets("op"); j.kind = plan.gets("kind"); j.depth = (size_t)plan.getu("depth", 1024); j.ordered = plan.getb("ordered");
    size_t stack_kb = (size_t)plan.getu("stack_kb", 512); if (stack_kb < 64) stack_kb = 64;
    if (j.depth > 400000) { res.cls = "invalid-plan"; return res; }
    if ((j.op != "destroy" && j.op != "swap_destroy") && j.depth > 1024) j.depth = 1024;   // only destruction is promised at any depth
    j.text = text_of(j.kind, j.depth);
    // build on the main thread (iteratively), operate on the small-stack thread
    if (j.ordered) { j.v1 = new ojson(build<ojson>(j.kind, j.depth)); j.v2 = new ojson(j.depth <= 1024 ? build<ojson>(j.kind, j.depth) : ojson(1)); }
    else { j.v1 = new json(build<json>(j.kind, j.depth)); j.v2 = new json(j.depth <= 1024 ? build<json>(j.kind, j.depth) : json(1)); }
    progress(1);
    pthread_attr_t at; pthread_attr_init(&at);
    pthread_attr_setstacksize(&at, stack_kb * 1024); pthread_attr_setguardsize(&at, 64 * 1024);
    pthread_t th;
    if (pthread_create(&th, &at, thread_main, &j) != 0) { res.fail("harness:thread", "pthread_create failed"); return res; }
    pthread_join(th, nullptr);
    pthread_attr_destroy(&at);
    // the rest (including destruction of whatever is left) happens on the main thread's large stack
    if (j.ordered) { delete static_cast<ojson*>(j.v1); delete static_cast<ojson*>(j.v2); } else { delete static_cast<json*>(j.v1); delete static_cast<json*>(j.v2); }
    st.inc("plans"); st.inc("op." + j.op); st.inc("stack_ops_at_depth_" + std::to_string(j.depth));
    st.nontrivial(mix3(fnv1a(j.op + j.kind), j.depth, (uint64_t)j.ordered));
    if (j.result.compare(0, 4, "EXC:") == 0) res.fail("c10.stack-op-exception." + j.op, j.op + " of a depth-" + std::to_string(j.depth) + " value threw: " + j.result);
    if (j.op == "compare" && j.result.compare(0, 5, "equal") != 0) res.fail("c10.stack-op-wrong." + j.op, "deep compare gave " + j.result);
    res.hash = fnv1a(j.result);
    return res;
}

} // namespace stacksim

int main(int argc, char** argv) {
    sim::Engine e{"stacksim", stacksim::generate, stacksim::execute};
    return sim::worker_main(argc, argv, e);
}
