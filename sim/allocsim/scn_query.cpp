// allocsim scenarios: JSONPath and JMESPath.
#include "scn.hpp"
#include <memory>
#include <jsoncons/json.hpp>
#include <jsoncons_ext/jsonpath/jsonpath.hpp>
#include <jsoncons_ext/jmespath/jmespath.hpp>

using namespace jsoncons;
using sim::MVal;

namespace allocsim {

template <class Json> static std::string text(const Json& j) { std::string s; j.dump(s); return s; }

// A compiled expression shared across evaluations must give the fault-free answer again after an evaluation failed.
struct JsonPathReuseScn : Scenario {
    json doc; std::string before, expected;
    std::unique_ptr<jsonpath::jsonpath_expression<json>> e;
    void setup(const MVal& p) override {
        doc = json::parse(sim::plan_text(p, "doc")); before = text(doc);
        e.reset(new jsonpath::jsonpath_expression<json>(jsonpath::make_expression<json>(p.gets("jsonpath"))));
        expected = text(e->evaluate(doc)) + text(e->evaluate(doc, jsonpath::result_options::path | jsonpath::result_options::nodups));
    }
    std::string run() override { return text(e->evaluate(doc)) + text(e->evaluate(doc, jsonpath::result_options::path | jsonpath::result_options::nodups)); }
    std::string check(bool) override {
        if (text(doc) != before) return "const document changed by query";
        std::string again = text(e->evaluate(doc)) + text(e->evaluate(doc, jsonpath::result_options::path | jsonpath::result_options::nodups));
        if (again != expected) return "compiled JSONPath expression gives a different result after a failed evaluation: " + again.substr(0, 200) + " vs " + expected.substr(0, 200);
        return "";
    }
};
struct JmesPathReuseScn : Scenario {
    json doc; std::string before, expected;
    std::unique_ptr<jmespath::jmespath_expression<json>> e;
    static std::string ev(const jmespath::jmespath_expression<json>& x, const json& d) { std::error_code ec; json r = x.evaluate(d, ec); return text(r) + (ec ? ec.message() : ""); }
    void setup(const MVal& p) override {
        doc = json::parse(sim::plan_text(p, "doc")); before = text(doc);
        e.reset(new jmespath::jmespath_expression<json>(jmespath::make_expression<json>(p.gets("jmespath"))));
        expected = ev(*e, doc);
    }
    std::string run() override { return ev(*e, doc); }
    std::string check(bool) override {
        if (text(doc) != before) return "const document changed by search";
        std::string again = ev(*e, doc);
        if (again != expected) return "compiled JMESPath expression gives a different result after a failed evaluation: " + again.substr(0, 200) + " vs " + expected.substr(0, 200);
        return "";
    }
};

template <int Mode> struct JsonPathScn : Scenario {
    json doc; std::string expr, before;
    void setup(const MVal& p) override { doc = json::parse(sim::plan_text(p, "doc")); expr = p.gets("jsonpath"); before = text(doc); }
    std::string run() override {
        if (Mode == 0) { json r = jsonpath::json_query(doc, expr); return text(r); }
        if (Mode == 1) { json r = jsonpath::json_query(doc, expr, jsonpath::result_options::path | jsonpath::result_options::nodups | jsonpath::result_options::sort); return text(r); }
        if (Mode == 2) { auto e = jsonpath::make_expression<json>(expr); json r = e.evaluate(doc); json r2 = e.evaluate(doc, jsonpath::result_options::path); return text(r) + text(r2); }
        if (Mode == 3) { std::string log; jsonpath::json_query(doc, expr, [&](const std::string& path, const json& v) { log += path; log += text(v); }); return log; }
        if (Mode == 4) { jsonpath::json_replace(doc, expr, json("replacement value that is long enough for heap")); return text(doc); }
        if (Mode == 5) { auto e = jsonpath::make_expression<json>(expr); auto locs = e.select_paths(doc); std::string log; for (auto& l : locs) log += jsonpath::to_string(l); return log; }
        return "";
    }
    std::string check(bool) override {
        if (Mode != 4 && text(doc) != before) return "const document changed by query";
        if (Mode == 4) (void)text(doc);
        return "";
    }
};

template <int Mode> struct JmesPathScn : Scenario {
    json doc; std::string expr, before;
    void setup(const MVal& p) override { doc = json::parse(sim::plan_text(p, "doc")); expr = p.gets("jmespath"); before = text(doc); }
    std::string run() override {
        if (Mode == 0) { std::error_code ec; json r = jmespath::search(doc, expr, ec); return text(r) + (ec ? ec.message() : ""); }
        auto e = jmespath::make_expression<json>(expr);
        std::error_code ec; json r = e.evaluate(doc, ec);
        return text(r) + (ec ? ec.message() : "");
    }
    std::string check(bool) override { if (text(doc) != before) return "const document changed by search"; return ""; }
};

void register_query(std::vector<Reg>& r) {
    r.push_back({"jsonpath_query", maker<JsonPathScn<0>>, "qdoc jsonpath"});
    r.push_back({"jsonpath_query_paths", maker<JsonPathScn<1>>, "qdoc jsonpath"});
    r.push_back({"jsonpath_compiled", maker<JsonPathScn<2>>, "qdoc jsonpath"});
    r.push_back({"jsonpath_callback", maker<JsonPathScn<3>>, "qdoc jsonpath"});
    r.push_back({"jsonpath_replace", maker<JsonPathScn<4>>, "qdoc jsonpath"});
    r.push_back({"jsonpath_select_paths", maker<JsonPathScn<5>>, "qdoc jsonpath"});
    r.push_back({"jsonpath_reuse", maker<JsonPathReuseScn>, "qdoc jsonpath"});
    r.push_back({"jmespath_reuse", maker<JmesPathReuseScn>, "qdoc jmespath"});
    r.push_back({"jmespath_search", maker<JmesPathScn<0>>, "qdoc jmespath"});
    r.push_back({"jmespath_compiled", maker<JmesPathScn<1>>, "qdoc jmespath"});
}

} // namespace allocsim
