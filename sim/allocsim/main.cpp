// allocsim: C19 — fail exactly the n-th allocation of an operation, for every n.
#include "scn.hpp"
#include "../core/gen.hpp"
#include "../core/patchmodel.hpp"
#include "../core/corpus.hpp"
#include "../core/binseeds.hpp"
#include <cstring>
#include <cstdlib>
#include <exception>
#include <memory>
#include <new>
#include <typeinfo>

using namespace sim;

namespace allocsim {

static std::vector<Reg>& registry() {
    static std::vector<Reg> r;
    if (r.empty()) { register_core(r); register_fmt(r); register_query(r); register_schema(r); register_stateful(r); register_typed(r); }
    return r;
}

using namespace sim::corpus;
static const char* const array_ops[] = {"push_back", "push_back_move", "emplace_back", "insert_front", "insert_mid", "insert_range", "reserve", "resize", "resize_val", "emplace"};
static const char* const object_ops[] = {"insert_or_assign", "insert_or_assign_existing", "try_emplace", "merge", "merge_move", "merge_or_update", "erase_insert", "subscript", "insert_range"};
static const char* const ptr_ops[] = {"add", "add_create", "add_if_absent", "replace", "remove", "get", "flatten", "unflatten"};
static const char* const kinds[] = {"null", "bool", "int64", "uint64", "double", "half", "short_str", "long_str", "bigint_long", "byte_str", "empty_obj",
                                    "array", "object", "array_nested", "object_nested", "empty_array", "long_str2", "byte_str2", "doc"};
constexpr size_t n_kinds = sizeof(kinds) / sizeof(kinds[0]);

static std::string gen_csv(Rng& r) {
    std::string s = "name,qty,price,note\n";
    size_t rows = 1 + r.below(5);
    GenOpts go; go.unicode = true;
    for (size_t i = 0; i < rows; ++i) {
        for (int c = 0; c < 4; ++c) {
            if (c) s.push_back(',');
            unsigned sel = (unsigned)r.below(6);
            if (sel == 0) s += std::to_string((int64_t)r.below(100000) - 500);
            else if (sel == 1) s += "1.5e3";
            else if (sel == 2) s += "\"quoted, with \"\"escape\"\" and\nnewline plus padding to be long\"";
            else if (sel == 3) s += "";
            else if (sel == 4) s += r.coin() ? "true" : "null";
            else { std::string t = gen_string(r, go, false); for (char& ch : t) if (ch == ',' || ch == '"' || ch == '\n' || ch == '\r' || (unsigned char)ch < 0x20) ch = '_'; s += t; }
        }
        s += r.chance(1, 4) ? "\r\n" : "\n";
    }
    return s;
}

static bool has_need(const char* needs, const char* w) {
    const char* p = needs; size_t n = strlen(w);
    while ((p = strstr(p, w))) { if ((p == needs || p[-1] == ' ') && (p[n] == 0 || p[n] == ' ')) return true; p += n; }
    return false;
}

MVal generate(const std::string& profile, uint64_t seed, uint64_t idx) {
    auto& regs = registry();
    Rng r(mix3(seed, 0xA110C, idx));
    MVal plan = MVal::obj();
    plan.set("engine", MVal::str("allocsim"));
    plan.set("seed", MVal::uinteger(seed)); plan.set("idx", MVal::uinteger(idx));
    // scenario: round-robin on idx so every scenario appears in every batch, inputs are seeded
    std::vector<const Reg*> pool;
    for (auto& g : regs) {
        if (profile == "patch" && strncmp(g.name, "patch", 5) != 0) continue;
        pool.push_back(&g);
    }
    // The first 3*n_kinds^2 indices of profile "all" walk the complete matrix of ordered storage-kind pairs for
    // the three assignment scenarios; after that scenarios are taken round-robin with seeded inputs.
    static const char* const assign_scn[] = {"assign_copy", "assign_move", "assign_copy_ojson"};
    const uint64_t matrix = (profile == "all") ? 3 * n_kinds * n_kinds : 0;
    const Reg* gp = nullptr;
    if (idx < matrix) { for (auto& x : regs) if (!strcmp(x.name, assign_scn[idx % 3])) gp = &x; }
    else gp = pool[(idx - matrix) % pool.size()];
    const Reg& g = *gp;
    plan.set("scenario", MVal::str(g.name));
    GenOpts go; go.max_depth = 3; go.max_width = 4; go.hostile_keys = r.chance(1, 4); go.big = r.chance(1, 8);
    if (has_need(g.needs, "doc")) plan.set("doc", gen_value(r, go));
    if (has_need(g.needs, "doc2")) plan.set("doc2", gen_value(r, go));
    if (has_need(g.needs, "qdoc")) plan.set("doc", store_doc(r));
    if (has_need(g.needs, "kinds")) {
        // ordered pair of storage kinds: idx / pool.size() walks the full matrix, then random
        size_t a, b;
        if (idx < matrix) { uint64_t cell = idx / 3; a = cell / n_kinds; b = cell % n_kinds; } else { a = r.below(n_kinds); b = r.below(n_kinds); }
        plan.set("lhs_kind", MVal::str(kinds[a])); plan.set("rhs_kind", MVal::str(kinds[b]));
    }
    if (has_need(g.needs, "arrayop")) plan.set("op", MVal::str(r.pick(array_ops)));
    if (has_need(g.needs, "objectop")) plan.set("op", MVal::str(r.pick(object_ops)));
    if (has_need(g.needs, "key")) plan.set("key", MVal::str(r.coin() ? "k" : "a new key that is long enough to need the heap"));
    if (has_need(g.needs, "statefulop")) { static const char* const sops[] = {"copy_same", "copy_other_alloc", "move_other_alloc", "assign", "move_assign", "swap", "assign_self_alloc", "insert_foreign", "insert_move", "emplace", "other"}; plan.set("op", MVal::str(r.pick(sops))); }
    if (has_need(g.needs, "mpop")) plan.set("op", MVal::str(r.chance(1, 4) ? "from_diff" : "apply"));
    if (has_need(g.needs, "ptrop")) {
        plan.set("op", MVal::str(r.pick(ptr_ops)));
        MVal d = *plan.find("doc");
        std::vector<std::vector<std::string>> paths; std::vector<std::string> cur; pm::collect_paths(d, cur, paths);
        auto p = paths[r.below(paths.size())];
        if (r.chance(1, 3)) p.push_back(r.coin() ? "-" : "newmember with a long name for the heap");
        plan.set("ptr", MVal::str(pm::make_ptr(p)));
    }
    if (has_need(g.needs, "jsonpath")) plan.set("jsonpath", MVal::str(r.pick(jsonpaths)));
    if (has_need(g.needs, "jmespath")) plan.set("jmespath", MVal::str(r.pick(jmespaths)));
    if (has_need(g.needs, "schema")) { const SchemaCase& sc = r.pick(schemas); plan.set("schema", MVal::parse(sc.schema)); plan.set("instance", MVal::parse(sc.inst)); }
    if (has_need(g.needs, "csv")) plan.set("csv", MVal::str(gen_csv(r)));
    {
        const char* const* seeds = has_need(g.needs, "seed_cbor") ? sim::binseeds::cbor() : has_need(g.needs, "seed_msgpack") ? sim::binseeds::msgpack()
                                 : has_need(g.needs, "seed_ubjson") ? sim::binseeds::ubjson() : has_need(g.needs, "seed_bson") ? sim::binseeds::bson() : nullptr;
        if (seeds) { size_t n = 0; while (seeds[n]) ++n; plan.set("bytes_hex", MVal::str(seeds[r.below(n)])); }
    }
    if (has_need(g.needs, "patch") || has_need(g.needs, "badpatch") || has_need(g.needs, "diffpatch")) {
        GenOpts pg = go; pg.doubles = false;
        MVal d = gen_value(r, pg);
        plan.set("doc", d);
        if (has_need(g.needs, "diffpatch")) { plan.set("patch", gen_value(r, pg)); plan.set("op", MVal::str("from_diff")); }
        else {
            size_t k = 1 + r.below(5);
            MVal hist = pm::gen_history(r, d, k, pg);
            if (has_need(g.needs, "badpatch")) {
                size_t pos = r.below(k);
                MVal cur = d;
                for (size_t i = 0; i < pos; ++i) pm::apply_op(cur, hist.a[i]);
                MVal bad;
                for (int t = 0; t < 8 && bad.is_null(); ++t) bad = pm::gen_bad_op(r, cur, pm::fail_classes[r.below(6)]); // classes that jsoncons reports today (see patchsim for the rest)
                if (bad.is_null()) { bad = pm::mk_op("test", ""); bad.set("value", MVal::str("\x02mismatch")); }
                hist.a[pos] = bad;
            }
            plan.set("patch", hist);
            plan.set("use_ec", MVal::boolean(r.coin()));
        }
    }
    plan.set("n", MVal::uinteger(0));
    return plan;
}

static std::string exc_name(const std::exception& e) { return typeid(e).name(); }

Result execute(MVal& plan, Stats& st) {
    Result res;
    std::string name = plan.gets("scenario");
    const Reg* g = nullptr;
    for (auto& x : registry()) if (name == x.name) g = &x;
    if (!g) { res.fail("harness:invalid-plan", "unknown scenario " + name); res.ok = true; res.cls = "invalid-plan"; return res; }
    uint64_t only = plan.getu("n") ? plan.getu("n") : plan.getu("sub"), resume = plan.getu("resume_sub");
    uint64_t shape = fnv1a(plan_text(plan, "doc")) ^ fnv1a(plan.gets("bytes_hex")) * 31 ^ fnv1a(plan_text(plan, "patch")) ^ fnv1a(plan.gets("lhs_kind") + "/" + plan.gets("rhs_kind") + "/" + plan.gets("op"));
    uint64_t h = fnv1a(name);
    uint64_t mism0 = ledger::size_mismatches(), badfree0 = ledger::bad_frees();

    auto fault_free = [&](std::string& out, bool& threw, uint64_t* nalloc, bool record) -> std::string {
        std::unique_ptr<Scenario> s(g->make());
        s->setup(plan);
        uint64_t mark = ledger::count();
        if (record) ledger::record_sites(true);
        threw = false;
        uint64_t cnt = 0;
        try { out = s->run(); cnt = ledger::count() - mark; }
        catch (const std::exception& e) { cnt = ledger::count() - mark; if (record) ledger::record_sites(false); threw = true; out = "EXC:" + exc_name(e); }
        catch (...) { cnt = ledger::count() - mark; if (record) ledger::record_sites(false); threw = true; out = "EXC:unknown"; }
        if (record) ledger::record_sites(false);
        if (nalloc) *nalloc = cnt;
        return s->check(threw);
    };

    // warm-up (function-local statics allocate on first use), then the counting run
    std::string ref, tmp; bool ref_threw = false, t2 = false; uint64_t N = 0;
    // A plan whose setup cannot be built (e.g. a value the format cannot encode) is skipped, not judged.
    try { fault_free(tmp, t2, nullptr, false); } catch (const std::exception& e) { st.inc("plans_skipped_setup_failed"); res.cls = "invalid-plan"; res.detail = e.what(); return res; }
    uint64_t mark0 = ledger::count();
    std::string err = fault_free(ref, ref_threw, &N, true);
    std::vector<uint64_t> sites(N);
    for (uint64_t i = 0; i < N; ++i) sites[i] = ledger::site_hash(i);
    if (!err.empty()) { res.fail("c19.control." + name, "fault-free run fails validity: " + err); return res; }
    // harness vectors allocated after mark0: `sites`, `ref`, `tmp`, `err` — subtract by re-marking below
    (void)mark0;
    st.inc("plans"); st.inc("plans." + name); st.inc("allocs_total", N); st.maxi("N." + name, N);
    h = fnv1a(ref, h) ^ N;

    if (getenv("ALLOCSIM_COUNT_ONLY")) { res.hash = h; return res; }   // exploration aid (fault-free control only), unset in checks
    uint64_t lo = 1, hi = N;
    if (only) { lo = hi = only; if (only > N) { res.cls = "invalid-plan"; return res; } }
    else if (resume) lo = resume;
    // Fault positions are enumerated completely up to max_n allocations; beyond that the first and last
    // max_n/3 and an evenly spaced third of the middle are taken (counted as subsampled in the evidence).
    uint64_t max_n = plan.getu("max_n", 450);
    uint64_t edge = max_n / 3, mid_step = (N > max_n) ? (N - 2 * edge + edge - 1) / edge : 1;
    if (N > max_n && !only) st.inc("plans_subsampled");
    for (uint64_t n = lo; n <= hi; ++n) {
        if (N > max_n && !only && n > edge && n + edge <= N && ((n - edge) % mid_step) != 0) { st.inc("fault_positions_skipped"); continue; }
        progress(n);
        // Everything allocated by the harness between `mark` and the leak check is scoped so that it is
        // gone again before the check; bookkeeping that allocates (stats, messages) happens after it.
        bool threw = false, fired = false, differs = false; int kind = 0; char ename[160] = ""; char verr[600] = ""; uint64_t oh = 0;
        char got[200] = "";
        uint64_t mark = ledger::count();
        {
            std::string out;
            std::unique_ptr<Scenario> s(g->make());
            s->setup(plan);
            ledger::arm(n);
            try { out = s->run(); }
            catch (const std::bad_alloc&) { threw = true; kind = 1; }
            catch (const std::exception& e) { threw = true; kind = 2; snprintf(ename, sizeof ename, "%s", typeid(e).name()); }
            catch (...) { threw = true; kind = 3; }
            fired = ledger::fired();
            ledger::disarm();
            if (fired) {
                if (!threw && out != ref) { differs = true; snprintf(got, sizeof got, "%s", out.c_str()); }
                std::string e = s->check(threw);
                snprintf(verr, sizeof verr, "%s", e.c_str());
                oh = fnv1a(out);
            }
        } // scenario state destroyed here (double free / use-after-free surface under ASan)
        if (!fired) { res.fail("harness:alloc-count-unstable", name + ": allocation " + std::to_string(n) + " of " + std::to_string(N) + " not reached"); plan.set("n", MVal::uinteger(n)); return res; }
        uint64_t first = 0, bytes = 0;
        uint64_t leaked = ledger::leaked_since(mark, &first, &bytes);
        std::string site = ledger::site_name(n - 1);
        std::string at = "allocation " + std::to_string(n) + "/" + std::to_string(N) + " (in " + site + ")";
        st.inc("faults_fired"); st.inc("faults." + name);
        st.nontrivial(mix3(fnv1a(name), sites[n - 1], shape));
        if (!threw) {
            if (differs) res.fail("c19.swallowed." + name + "@" + site, at + " failed, operation returned normally with a different result: " + got + " expected " + ref.substr(0, 200));
            else st.inc("absorbed." + name);
        } else if (kind == 1) st.inc("propagated_bad_alloc");
        else if (kind == 2) st.inc(std::string("converted.") + name + "." + ename);
        else st.inc("converted_unknown." + name);
        if (verr[0]) res.fail(std::string(strstr(verr, "differs from its pre-call state") ? "c19.patch-not-restored." : "c19.invalid.") + name + "@" + site, "after failing " + at + ": " + verr);
        if (leaked) res.fail("c19.leak." + name + "@" + site, std::to_string(leaked) + " block(s), " + std::to_string(bytes) + " bytes still allocated after failing " + at + " (first leaked allocation is #" + std::to_string(first - mark) + " counted from setup)");
        if (ledger::size_mismatches() != mism0) res.fail("c19.sized-delete." + name, "block returned with a size different from the one requested");
        if (ledger::bad_frees() != badfree0) res.fail("c19.bad-free." + name, "pointer freed that the ledger never handed out");
        h = (h ^ oh) * 31 + (uint64_t)kind;
        if (!res.ok) { plan.set("n", MVal::uinteger(n)); break; }
    }
    res.hash = h;
    return res;
}

} // namespace allocsim

int main(int argc, char** argv) {
    sim::Engine e{"allocsim", allocsim::generate, allocsim::execute};
    return sim::worker_main(argc, argv, e);
}
