// allocsim scenario interface.
#pragma once
#include "../core/mini.hpp"
#include "../core/worker.hpp"
#include "../core/ledger.hpp"
#include <string>
#include <vector>

namespace allocsim {

struct Scenario {
    virtual ~Scenario() {}
    // Build inputs and pre-existing values from the plan.  Never runs under fault.
    virtual void setup(const sim::MVal& plan) = 0;
    // The operation under test; runs with the allocator armed.  Returns a canonical
    // rendering of its result (compared with the fault-free result when it returns normally).
    virtual std::string run() = 0;
    // Validity of everything that outlives the operation; faults disarmed.
    // threw: the operation ended by exception.  Returns "" or a description of what is wrong.
    virtual std::string check(bool threw) = 0;
};

struct Reg {
    const char* name;
    Scenario* (*make)();
    const char* needs;   // space separated: doc doc2 ojson kinds jsonpath jmespath schema patch badpatch ptr csv
};

void register_core(std::vector<Reg>&);
void register_fmt(std::vector<Reg>&);
void register_query(std::vector<Reg>&);
void register_schema(std::vector<Reg>&);
void register_stateful(std::vector<Reg>&);
void register_typed(std::vector<Reg>&);

template <class S> Scenario* maker() { return new S(); }

} // namespace allocsim
