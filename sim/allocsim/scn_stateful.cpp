#include "scn.hpp"
namespace allocsim { void register_stateful(std::vector<Reg>&) {} }
