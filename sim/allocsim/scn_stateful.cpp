// allocsim scenarios with a stateful allocator: every block must go back to an allocator equal to the one it
// came from, with the size it was requested with (last sentence of C19) — also when an allocation fails.
#include "scn.hpp"
#include <jsoncons/json.hpp>
#include <jsoncons_ext/cbor/cbor.hpp>
#include <jsoncons_ext/msgpack/msgpack.hpp>
#include <jsoncons_ext/jsonpointer/jsonpointer.hpp>
#include <cstdlib>
#include <map>
#include <scoped_allocator>
#include <sstream>

using namespace jsoncons;
using sim::MVal;

namespace allocsim {

// ---- registry of blocks handed out by SimAlloc (kept off the ledger: malloc-backed map)
template <class T> struct MallocAlloc {
    using value_type = T;
    MallocAlloc() = default;
    template <class U> MallocAlloc(const MallocAlloc<U>&) {}
    T* allocate(size_t n) { return static_cast<T*>(std::malloc(n * sizeof(T))); }
    void deallocate(T* p, size_t) { std::free(p); }
    template <class U> bool operator==(const MallocAlloc<U>&) const { return true; }
    template <class U> bool operator!=(const MallocAlloc<U>&) const { return false; }
};
struct Block { int id; size_t bytes; };
using Registry = std::map<void*, Block, std::less<void*>, MallocAlloc<std::pair<void* const, Block>>>;
static Registry& registry() { static Registry* r = new (std::malloc(sizeof(Registry))) Registry(); return *r; }
static uint64_t g_wrong_alloc = 0, g_wrong_size = 0, g_unknown = 0;
static char g_first[200];

template <class T> struct SimAlloc {
    using value_type = T;
    using propagate_on_container_copy_assignment = std::false_type;
    using propagate_on_container_move_assignment = std::true_type;
    using propagate_on_container_swap = std::true_type;
    using is_always_equal = std::false_type;
    int id;
    SimAlloc() = delete;
    explicit SimAlloc(int i) noexcept : id(i) {}
    template <class U> SimAlloc(const SimAlloc<U>& o) noexcept : id(o.id) {}
    T* allocate(size_t n) {
        T* p = static_cast<T*>(::operator new(n * sizeof(T)));   // counted, and failed, by the ledger
        registry()[p] = Block{id, n * sizeof(T)};
        return p;
    }
    void deallocate(T* p, size_t n) noexcept {
        auto it = registry().find(p);
        if (it == registry().end()) { if (!g_unknown++) snprintf(g_first, sizeof g_first, "pointer never handed out by a SimAlloc returned to allocator %d", id); }
        else {
            if (it->second.id != id && !g_wrong_alloc++) snprintf(g_first, sizeof g_first, "block of %zu bytes obtained from allocator %d returned to allocator %d", it->second.bytes, it->second.id, id);
            if (it->second.bytes != n * sizeof(T) && !g_wrong_size++) snprintf(g_first, sizeof g_first, "block requested with %zu bytes returned with %zu bytes (allocator %d)", it->second.bytes, n * sizeof(T), id);
            registry().erase(it);
        }
        ::operator delete(p);
    }
    template <class U> bool operator==(const SimAlloc<U>& o) const noexcept { return id == o.id; }
    template <class U> bool operator!=(const SimAlloc<U>& o) const noexcept { return id != o.id; }
};

template <class T> using Scoped = std::scoped_allocator_adaptor<SimAlloc<T>>;
using cjson = basic_json<char, sorted_policy, Scoped<char>>;
using cojson = basic_json<char, ordered_policy, Scoped<char>>;

template <class J> static std::string text(const J& j) { std::string s; j.dump(s); return s; }

struct StatefulBase : Scenario {
    uint64_t w0 = 0, s0 = 0, u0 = 0; size_t live0 = 0;
    void mark() { w0 = g_wrong_alloc; s0 = g_wrong_size; u0 = g_unknown; g_first[0] = 0; }
    std::string verdict() {
        if (g_wrong_alloc != w0 || g_wrong_size != s0 || g_unknown != u0) return std::string("stateful allocator contract broken: ") + g_first;
        return "";
    }
};

template <class J> static J parse_with(const std::string& text_, const Scoped<char>& res, const Scoped<char>& tmp) {
    json_decoder<J, Scoped<char>> decoder(res, tmp);
    basic_json_reader<char, chars_source<char>, Scoped<char>> reader(text_, decoder, tmp);
    reader.read();
    return decoder.get_result();
}

template <class J> struct SParse : StatefulBase {
    std::string doc;
    void setup(const MVal& p) override { doc = sim::plan_text(p, "doc"); mark(); }
    std::string run() override { Scoped<char> a1(1), a2(2); J j = parse_with<J>(doc, a1, a2); return text(j); }
    std::string check(bool) override { return verdict(); }
};

template <class J> struct SCopyAssign : StatefulBase {
    std::string d1, d2, op;
    void setup(const MVal& p) override { d1 = sim::plan_text(p, "doc"); d2 = sim::plan_text(p, "doc2"); op = p.gets("op"); mark(); }
    std::string run() override {
        Scoped<char> a1(1), a2(2), t(3);
        J x = parse_with<J>(d1, a1, t);
        J y = parse_with<J>(d2, a2, t);
        if (op == "copy_same") { J c(x); return text(c); }
        if (op == "copy_other_alloc") { J c(x, a2); return text(c); }
        if (op == "move_other_alloc") { J c(std::move(x), a2); return text(c); }
        if (op == "assign") { x = y; return text(x) + text(y); }
        if (op == "move_assign") { x = std::move(y); return text(x); }
        if (op == "swap") { x.swap(y); return text(x) + text(y); }
        if (op == "assign_self_alloc") { J z = parse_with<J>(d2, a1, t); x = z; return text(x); }
        return "";
    }
    std::string check(bool) override { return verdict(); }
};

template <class J> struct SMutate : StatefulBase {
    std::string d1, d2, op;
    void setup(const MVal& p) override { d1 = sim::plan_text(p, "doc"); d2 = sim::plan_text(p, "doc2"); op = p.gets("op"); mark(); }
    std::string run() override {
        Scoped<char> a1(1), a2(2), t(3);
        J x = parse_with<J>(d1, a1, t);
        J y = parse_with<J>(d2, a2, t);     // value living in a different allocator
        if (x.is_array()) {
            if (op == "insert_foreign") x.push_back(y);
            else if (op == "insert_move") x.push_back(std::move(y));
            else if (op == "emplace") x.emplace_back("a string long enough to need the heap, yes");
            else { x.reserve(x.size() + 20); x.insert(x.array_range().begin(), y); }
        } else if (x.is_object()) {
            if (op == "insert_foreign") x.insert_or_assign("a key that is long enough to need the heap", y);
            else if (op == "insert_move") x.insert_or_assign("k", std::move(y));
            else if (op == "emplace") x.try_emplace("another long key for the heap allocator", "a string long enough to need the heap, yes");
            else { if (y.is_object()) x.merge(y); else x["k2"] = y; }
        } else x = y;
        return text(x);
    }
    std::string check(bool) override { return verdict(); }
};

template <class F> struct SBinary : StatefulBase {
    std::string doc; bool stream = false;
    void setup(const MVal& p) override { doc = sim::plan_text(p, "doc"); stream = p.gets("op") == "insert_move" || p.gets("op") == "copy_same"; mark(); }
    std::string run() override {
        Scoped<char> res(1), tmp(2);
        auto aset = make_alloc_set(res, tmp);
        cjson j = parse_with<cjson>(doc, res, tmp);
        if (stream) { std::stringstream ss; F::enc_stream(aset, j, ss); cjson back = F::dec_stream(aset, ss); return text(back); }
        std::vector<uint8_t> b; F::enc(aset, j, b); cjson back = F::dec(aset, b); return text(back);
    }
    std::string check(bool) override { return verdict(); }
};
struct SCbor { template <class A> static void enc(const A& a, const cjson& j, std::vector<uint8_t>& b) { cbor::encode_cbor(a, j, b); }
               template <class A> static cjson dec(const A& a, const std::vector<uint8_t>& b) { return cbor::decode_cbor<cjson>(a, b); }
               template <class A> static void enc_stream(const A& a, const cjson& j, std::ostream& os) { cbor::encode_cbor(a, j, os); }
               template <class A> static cjson dec_stream(const A& a, std::istream& is) { return cbor::decode_cbor<cjson>(a, is); } };
struct SMsgpack { template <class A> static void enc(const A& a, const cjson& j, std::vector<uint8_t>& b) { msgpack::encode_msgpack(a, j, b); }
               template <class A> static cjson dec(const A& a, const std::vector<uint8_t>& b) { return msgpack::decode_msgpack<cjson>(a, b); }
               template <class A> static void enc_stream(const A& a, const cjson& j, std::ostream& os) { msgpack::encode_msgpack(a, j, os); }
               template <class A> static cjson dec_stream(const A& a, std::istream& is) { return msgpack::decode_msgpack<cjson>(a, is); } };

void register_stateful(std::vector<Reg>& r) {
    r.push_back({"stateful_parse", maker<SParse<cjson>>, "doc"});
    r.push_back({"stateful_parse_ojson", maker<SParse<cojson>>, "doc"});
    r.push_back({"stateful_copy_assign", maker<SCopyAssign<cjson>>, "doc doc2 statefulop"});
    r.push_back({"stateful_copy_assign_ojson", maker<SCopyAssign<cojson>>, "doc doc2 statefulop"});
    r.push_back({"stateful_mutate", maker<SMutate<cjson>>, "doc doc2 statefulop"});
    r.push_back({"stateful_mutate_ojson", maker<SMutate<cojson>>, "doc doc2 statefulop"});
    r.push_back({"stateful_cbor", maker<SBinary<SCbor>>, "doc statefulop"});
    r.push_back({"stateful_msgpack", maker<SBinary<SMsgpack>>, "doc statefulop"});
}

} // namespace allocsim
