// allocsim scenarios: JSON Schema compile and validate.
#include "scn.hpp"
#include <jsoncons/json.hpp>
#include <jsoncons_ext/jsonschema/jsonschema.hpp>

using namespace jsoncons;
using sim::MVal;

namespace allocsim {

template <class Json> static std::string text(const Json& j) { std::string s; j.dump(s); return s; }

struct SchemaCompileScn : Scenario {
    json schema, inst; std::string sb, ib;
    void setup(const MVal& p) override { schema = json::parse(sim::plan_text(p, "schema")); inst = json::parse(sim::plan_text(p, "instance")); sb = text(schema); ib = text(inst); }
    std::string run() override {
        auto compiled = jsonschema::make_json_schema(schema);
        bool v = compiled.is_valid(inst);
        return v ? "valid" : "invalid";
    }
    std::string check(bool) override { if (text(schema) != sb || text(inst) != ib) return "const schema/instance changed"; return ""; }
};

template <int Mode> struct SchemaValidateScn : Scenario {
    json schema, inst; std::string ib;
    std::unique_ptr<jsonschema::json_schema<json>> compiled;
    bool verdict0 = false;
    void setup(const MVal& p) override {
        schema = json::parse(sim::plan_text(p, "schema")); inst = json::parse(sim::plan_text(p, "instance")); ib = text(inst);
        compiled.reset(new jsonschema::json_schema<json>(jsonschema::make_json_schema(schema)));
        verdict0 = compiled->is_valid(inst);
    }
    std::string run() override {
        if (Mode == 0) return compiled->is_valid(inst) ? "valid" : "invalid";
        if (Mode == 1) {
            std::string log;
            compiled->validate(inst, [&](const jsonschema::validation_message& m) { log += m.keyword(); log += "@"; log += m.instance_location().string(); log += ";"; return jsonschema::walk_result::advance; });
            return log;
        }
        if (Mode == 2) { json patch; compiled->validate(inst, patch); return text(patch); }
        if (Mode == 3) { std::string log; compiled->walk(inst, [&](const std::string& kw, const json&, const uri&, const json&, const jsonpointer::json_pointer& loc) { log += kw; log += "@"; log += loc.string(); log += ";"; return jsonschema::walk_result::advance; }); return log; }
        return "";
    }
    std::string check(bool) override {
        if (text(inst) != ib) return "const instance changed";
        // compiled schema still gives the fault-free verdict
        bool v1 = compiled->is_valid(inst); bool v2 = compiled->is_valid(inst);
        if (v1 != v2) return "compiled schema unstable after fault";
        if (v1 != verdict0) return "compiled schema gives a different verdict after a failed validation";
        return "";
    }
};

void register_schema(std::vector<Reg>& r) {
    r.push_back({"schema_compile_validate", maker<SchemaCompileScn>, "schema"});
    r.push_back({"schema_is_valid", maker<SchemaValidateScn<0>>, "schema"});
    r.push_back({"schema_validate_reporter", maker<SchemaValidateScn<1>>, "schema"});
    r.push_back({"schema_validate_patch", maker<SchemaValidateScn<2>>, "schema"});
    r.push_back({"schema_walk", maker<SchemaValidateScn<3>>, "schema"});
}

} // namespace allocsim
