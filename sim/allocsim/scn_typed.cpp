// allocsim scenarios: typed (non-basic_json) decoding, encoding and conversion through the
// reflection / json_type_traits layer, for JSON text, CBOR and MessagePack; parse with number options.
#include "scn.hpp"
#include <jsoncons/json.hpp>
#include <jsoncons_ext/cbor/cbor.hpp>
#include <jsoncons_ext/msgpack/msgpack.hpp>
#include <map>
#include <sstream>

using namespace jsoncons;
using sim::MVal;

namespace allocsim_typed {
// A user type with every member shape the traits macros generate code for.
struct Item {
    std::string name;
    std::vector<double> vals;
    jsoncons::optional<std::string> note;
    std::map<std::string, int64_t> counts;
    std::vector<std::string> tags;
};
}
JSONCONS_N_MEMBER_TRAITS(allocsim_typed::Item, 1, name, vals, note, counts, tags)

namespace allocsim {

using allocsim_typed::Item;
template <class Json> static std::string text(const Json& j) { std::string s; j.dump(s); return s; }

// Harvest the leaves of a generated document into a vector of Items (setup only, never under fault).
static void harvest(const json& j, std::vector<Item>& out, Item& cur, int depth) {
    if (j.is_array()) { for (const auto& e : j.array_range()) harvest(e, out, cur, depth + 1); }
    else if (j.is_object()) {
        for (const auto& m : j.object_range()) { cur.tags.push_back(std::string(m.key())); harvest(m.value(), out, cur, depth + 1); }
        out.push_back(cur); cur = Item(); cur.name = "item number " + std::to_string(out.size()) + " with a long name";
    }
    else if (j.is_string()) { if (cur.note) cur.name = j.as<std::string>(); else cur.note = j.as<std::string>(); }
    else if (j.is_double()) cur.vals.push_back(j.as<double>());
    else if (j.is_int64()) cur.counts["count of " + std::to_string(cur.counts.size())] = j.as<int64_t>();
    else if (j.is_bool()) cur.vals.push_back(j.as<bool>() ? 1.0 : 0.0);
}
static std::vector<Item> items_of(const MVal& p) {
    json j = json::parse(sim::plan_text(p, "doc"));
    std::vector<Item> v; Item cur; cur.name = "first";
    harvest(j, v, cur, 0);
    v.push_back(cur);
    return v;
}

// decode_json<T>: containers of json chosen by the root kind, from a string or a stream.
template <int Mode> struct TypedDecodeScn : Scenario {
    std::string in; int root = 0;
    void setup(const MVal& p) override { json j = json::parse(sim::plan_text(p, "doc")); root = j.is_array() ? 1 : j.is_object() ? 2 : 0; in = text(j); }
    template <class J> static void render(const std::vector<J>& v, std::string& out) { for (const auto& e : v) { e.dump(out); out.push_back(';'); } }
    template <class J> static void render(const std::map<std::string, J>& v, std::string& out) { for (const auto& e : v) { out += e.first; e.second.dump(out); out.push_back(';'); } }
    static void render(const json& v, std::string& out) { v.dump(out); }
    static void render(const ojson& v, std::string& out) { v.dump(out); }
    template <class T, class Src> static std::string go(Src& src) { T v = decode_json<T>(src); std::string out; render(v, out); return out; }
    std::string run() override {
        if (Mode == 0) {
            if (root == 1) return go<std::vector<json>>(in);
            if (root == 2) return go<std::map<std::string, json>>(in);
            return go<json>(in);
        }
        std::istringstream is(in);
        if (root == 1) return go<std::vector<ojson>>(is);
        if (root == 2) return go<std::map<std::string, ojson>>(is);
        return go<ojson>(is);
    }
    std::string check(bool) override { return ""; }
};

// User type through the member-traits macro: encode, decode back, encode again (text, pretty, CBOR, MessagePack).
template <int Mode> struct ItemScn : Scenario {
    std::vector<Item> items; std::string as_text; std::vector<uint8_t> as_cbor, as_msgpack;
    size_t n_before = 0; std::string first_before;
    void setup(const MVal& p) override {
        items = items_of(p);
        encode_json(items, as_text); cbor::encode_cbor(items, as_cbor); msgpack::encode_msgpack(items, as_msgpack);
        n_before = items.size(); first_before = items[0].name;
    }
    std::string run() override {
        std::string out;
        if (Mode == 0) { encode_json(items, out); return out; }
        if (Mode == 1) { encode_json(items, out, indenting::indent); std::ostringstream os; encode_json(items, os); if (!os) throw std::ios_base::failure("ostream reports failure"); return out + os.str(); }
        if (Mode == 2) { auto v = decode_json<std::vector<Item>>(as_text); encode_json(v, out); return out; }
        if (Mode == 3) { std::vector<uint8_t> b; cbor::encode_cbor(items, b); auto v = cbor::decode_cbor<std::vector<Item>>(as_cbor); encode_json(v, out); return out + std::to_string(b.size()); }
        if (Mode == 4) { std::vector<uint8_t> b; msgpack::encode_msgpack(items, b); auto v = msgpack::decode_msgpack<std::vector<Item>>(as_msgpack); encode_json(v, out); return out + std::to_string(b.size()); }
        if (Mode == 5) { json j(items); auto v = j.as<std::vector<Item>>(); json k; k = json(v); return text(k); }   // to_json / as<T> on a value
        return out;
    }
    std::string check(bool) override {
        if (items.size() != n_before || items[0].name != first_before) return "const input changed by typed encode";
        return "";
    }
};

// as<T>() conversions of a value into standard containers and back.
struct AsConvertScn : Scenario {
    json j; std::string before;
    void setup(const MVal& p) override { j = json::parse(sim::plan_text(p, "doc")); before = text(j); }
    std::string run() override {
        std::string out;
        if (j.is_array()) {
            auto v = j.as<std::vector<json>>(); json back(v); out = text(back);
            try { auto s = j.as<std::vector<std::string>>(); out += std::to_string(s.size()); } catch (const json_exception&) { out += "!"; }
        }
        else if (j.is_object()) { auto m = j.as<std::map<std::string, json>>(); json back(m); out = text(back); }
        else { out = j.as<std::string>(); }
        return out;
    }
    std::string check(bool) override { return text(j) == before ? "" : "const value changed by as<T>()"; }
};

// json::parse with the number options that route through bigint / string storage.
struct ParseOptionsScn : Scenario {
    std::string in;
    void setup(const MVal& p) override { in = "[" + sim::plan_text(p, "doc") + ",123456789012345678901234567890,1.25e400,-0.000000000000000000000000001234,18446744073709551616]"; }
    std::string run() override {
        auto opt = json_options{}.lossless_number(true).max_nesting_depth(64);
        json j = json::parse(in, opt);
        auto opt2 = json_options{}.lossless_bignum(false);
        ojson k = ojson::parse(in, opt2);
        return text(j) + text(k);
    }
    std::string check(bool) override { return ""; }
};

void register_typed(std::vector<Reg>& r) {
    r.push_back({"typed_decode_string", maker<TypedDecodeScn<0>>, "doc"});
    r.push_back({"typed_decode_stream", maker<TypedDecodeScn<1>>, "doc"});
    r.push_back({"item_encode", maker<ItemScn<0>>, "doc"});
    r.push_back({"item_encode_pretty_stream", maker<ItemScn<1>>, "doc"});
    r.push_back({"item_decode", maker<ItemScn<2>>, "doc"});
    r.push_back({"item_cbor", maker<ItemScn<3>>, "doc"});
    r.push_back({"item_msgpack", maker<ItemScn<4>>, "doc"});
    r.push_back({"item_to_from_json", maker<ItemScn<5>>, "doc"});
    r.push_back({"as_convert", maker<AsConvertScn>, "doc"});
    r.push_back({"parse_number_options", maker<ParseOptionsScn>, "doc"});
}

} // namespace allocsim
