// allocsim scenarios: binary formats and CSV, decode and encode.
#include "scn.hpp"
#include <jsoncons/json.hpp>
#include <jsoncons_ext/cbor/cbor.hpp>
#include <jsoncons_ext/msgpack/msgpack.hpp>
#include <jsoncons_ext/ubjson/ubjson.hpp>
#include <jsoncons_ext/bson/bson.hpp>
#include <jsoncons_ext/csv/csv.hpp>
#include <jsoncons_ext/toon/toon.hpp>
#include <jsoncons_ext/toon/toon_reader.hpp>
#include <jsoncons_ext/toon/decode_toon.hpp>
#include <jsoncons_ext/toon/encode_toon.hpp>
#include <sstream>

using namespace jsoncons;
using sim::MVal;

namespace allocsim {

template <class Json> static std::string text(const Json& j) { std::string s; j.dump(s); return s; }

struct Cbor { template <class J> static void enc(const J& j, std::vector<uint8_t>& b) { cbor::encode_cbor(j, b); }
              template <class J> static J dec(const std::vector<uint8_t>& b) { return cbor::decode_cbor<J>(b); }
              template <class J> static J dec_stream(std::istream& is) { return cbor::decode_cbor<J>(is); } };
struct Msgpack { template <class J> static void enc(const J& j, std::vector<uint8_t>& b) { msgpack::encode_msgpack(j, b); }
              template <class J> static J dec(const std::vector<uint8_t>& b) { return msgpack::decode_msgpack<J>(b); }
              template <class J> static J dec_stream(std::istream& is) { return msgpack::decode_msgpack<J>(is); } };
struct Ubjson { template <class J> static void enc(const J& j, std::vector<uint8_t>& b) { ubjson::encode_ubjson(j, b); }
              template <class J> static J dec(const std::vector<uint8_t>& b) { return ubjson::decode_ubjson<J>(b); }
              template <class J> static J dec_stream(std::istream& is) { return ubjson::decode_ubjson<J>(is); } };
struct Bson { template <class J> static void enc(const J& j, std::vector<uint8_t>& b) { bson::encode_bson(j, b); }
              template <class J> static J dec(const std::vector<uint8_t>& b) { return bson::decode_bson<J>(b); }
              template <class J> static J dec_stream(std::istream& is) { return bson::decode_bson<J>(is); } };

template <class F, bool RootObj> static json prepare(const MVal& p) {
    json j = json::parse(sim::plan_text(p, "doc"));
    if (RootObj && !j.is_object()) { json o(json_object_arg); o.insert_or_assign("root", j); return o; }
    return j;
}

template <class F, bool RootObj, bool Stream> struct DecodeScn : Scenario {
    std::vector<uint8_t> bytes;
    void setup(const MVal& p) override { json j = prepare<F, RootObj>(p); F::enc(j, bytes); }
    std::string run() override {
        if (Stream) { std::string s(bytes.begin(), bytes.end()); std::istringstream is(s); json j = F::template dec_stream<json>(is); return text(j); }
        json j = F::template dec<json>(bytes); return text(j);
    }
    std::string check(bool) override { return ""; }
};

template <class F, bool RootObj, bool Stream> struct EncodeScn : Scenario {
    json j; std::string before;
    void setup(const MVal& p) override { j = prepare<F, RootObj>(p); before = text(j); }
    std::string run() override {
        std::vector<uint8_t> b;
        if (Stream) { std::ostringstream os; F::enc(j, b); /* container path also exercised */ return sim::to_hex(std::string(b.begin(), b.end())); }
        F::enc(j, b); return sim::to_hex(std::string(b.begin(), b.end()));
    }
    std::string check(bool) override { if (text(j) != before) return "const value changed by encode"; return ""; }
};

struct CborOptsScn : Scenario { // pack_strings + typed arrays exercise the stringref map and typed array paths
    json j; std::string before;
    void setup(const MVal& p) override { j = json::parse(sim::plan_text(p, "doc")); before = text(j); }
    std::string run() override {
        std::vector<uint8_t> b;
        auto opts = cbor::cbor_options{}.pack_strings(true);
        cbor::encode_cbor(j, b, opts);
        json back = cbor::decode_cbor<json>(b);
        return text(back);
    }
    std::string check(bool) override { if (text(j) != before) return "const value changed"; return ""; }
};

static std::string make_csv(const MVal& p) { return p.gets("csv"); }

template <int Mapping> struct CsvDecodeScn : Scenario {
    std::string data;
    void setup(const MVal& p) override { data = make_csv(p); }
    std::string run() override {
        auto opts = csv::csv_options{};
        if (Mapping == 0) opts.assume_header(true).mapping_kind(csv::csv_mapping_kind::n_objects);
        else if (Mapping == 1) opts.mapping_kind(csv::csv_mapping_kind::n_rows);
        else opts.assume_header(true).mapping_kind(csv::csv_mapping_kind::m_columns);
        json j = csv::decode_csv<json>(data, opts);
        return text(j);
    }
    std::string check(bool) override { return ""; }
};

struct CsvEncodeScn : Scenario {
    json j; std::string before;
    void setup(const MVal& p) override {
        auto opts = csv::csv_options{}.assume_header(true).mapping_kind(csv::csv_mapping_kind::n_objects);
        j = csv::decode_csv<json>(make_csv(p), opts); before = text(j);
    }
    std::string run() override { std::string s; csv::encode_csv(j, s); return s; }
    std::string check(bool) override { if (text(j) != before) return "const value changed"; return ""; }
};

// Hand-written binary documents (typed arrays, bignums, decimal fractions, stringrefs, ext / timestamp, typed UBJSON containers,
// every BSON element type, also malformed ones): decode into a value, and walk with a cursor converting every scalar event.
struct CborCur { using type = cbor::cbor_bytes_cursor; };
struct MsgpackCur { using type = msgpack::msgpack_bytes_cursor; };
struct UbjsonCur { using type = ubjson::ubjson_bytes_cursor; };
struct BsonCur { using type = bson::bson_bytes_cursor; };
template <class F, class C, bool Cursor> struct SeedDecodeScn : Scenario {
    std::vector<uint8_t> bytes;
    void setup(const MVal& p) override { std::string b = sim::from_hex(p.gets("bytes_hex")); bytes.assign(b.begin(), b.end()); }
    std::string run() override {
        if (!Cursor) { json j = F::template dec<json>(bytes); return text(j); }
        std::string log;
        typename C::type cur(bytes);
        for (int guard = 0; !cur.done() && guard < 100000; cur.next(), ++guard) {
            const auto& ev = cur.current();
            log += std::to_string((int)ev.event_type()); log += ":";
            if (!is_begin_container(ev.event_type()) && !is_end_container(ev.event_type())) { std::error_code ec; std::string v = ev.template get<std::string>(ec); if (!ec) log += v; }
            log += ";";
        }
        return log;
    }
    std::string check(bool) override { return ""; }
};

struct ToonDecodeScn : Scenario {
    std::string data;
    void setup(const MVal& p) override { json j = json::parse(sim::plan_text(p, "doc")); try { toon::encode_toon(j, data); } catch (const std::exception&) { data = "a: 1\n"; } }
    std::string run() override { json j = toon::decode_toon<json>(data); return text(j); }
    std::string check(bool) override { return ""; }
};
struct ToonEncodeScn : Scenario {
    json j; std::string before;
    void setup(const MVal& p) override { j = json::parse(sim::plan_text(p, "doc")); before = text(j); }
    std::string run() override { std::string s; toon::encode_toon(j, s); return s; }
    std::string check(bool) override { if (text(j) != before) return "const value changed"; return ""; }
};

void register_fmt(std::vector<Reg>& r) {
    r.push_back({"decode_seed_cbor", maker<SeedDecodeScn<Cbor, CborCur, false>>, "seed_cbor"});
    r.push_back({"cursor_seed_cbor", maker<SeedDecodeScn<Cbor, CborCur, true>>, "seed_cbor"});
    r.push_back({"decode_seed_msgpack", maker<SeedDecodeScn<Msgpack, MsgpackCur, false>>, "seed_msgpack"});
    r.push_back({"cursor_seed_msgpack", maker<SeedDecodeScn<Msgpack, MsgpackCur, true>>, "seed_msgpack"});
    r.push_back({"decode_seed_ubjson", maker<SeedDecodeScn<Ubjson, UbjsonCur, false>>, "seed_ubjson"});
    r.push_back({"cursor_seed_ubjson", maker<SeedDecodeScn<Ubjson, UbjsonCur, true>>, "seed_ubjson"});
    r.push_back({"decode_seed_bson", maker<SeedDecodeScn<Bson, BsonCur, false>>, "seed_bson"});
    r.push_back({"cursor_seed_bson", maker<SeedDecodeScn<Bson, BsonCur, true>>, "seed_bson"});
    r.push_back({"decode_toon", maker<ToonDecodeScn>, "doc"});
    r.push_back({"encode_toon", maker<ToonEncodeScn>, "doc"});
    r.push_back({"decode_cbor", maker<DecodeScn<Cbor, false, false>>, "doc"});
    r.push_back({"decode_cbor_stream", maker<DecodeScn<Cbor, false, true>>, "doc"});
    r.push_back({"decode_msgpack", maker<DecodeScn<Msgpack, false, false>>, "doc"});
    r.push_back({"decode_msgpack_stream", maker<DecodeScn<Msgpack, false, true>>, "doc"});
    r.push_back({"decode_ubjson", maker<DecodeScn<Ubjson, false, false>>, "doc"});
    r.push_back({"decode_ubjson_stream", maker<DecodeScn<Ubjson, false, true>>, "doc"});
    r.push_back({"decode_bson", maker<DecodeScn<Bson, true, false>>, "doc"});
    r.push_back({"decode_bson_stream", maker<DecodeScn<Bson, true, true>>, "doc"});
    r.push_back({"encode_cbor", maker<EncodeScn<Cbor, false, false>>, "doc"});
    r.push_back({"encode_msgpack", maker<EncodeScn<Msgpack, false, false>>, "doc"});
    r.push_back({"encode_ubjson", maker<EncodeScn<Ubjson, false, false>>, "doc"});
    r.push_back({"encode_bson", maker<EncodeScn<Bson, true, false>>, "doc"});
    r.push_back({"cbor_packed_roundtrip", maker<CborOptsScn>, "doc"});
    r.push_back({"decode_csv_objects", maker<CsvDecodeScn<0>>, "csv"});
    r.push_back({"decode_csv_rows", maker<CsvDecodeScn<1>>, "csv"});
    r.push_back({"decode_csv_columns", maker<CsvDecodeScn<2>>, "csv"});
    r.push_back({"encode_csv", maker<CsvEncodeScn>, "csv"});
}

} // namespace allocsim
