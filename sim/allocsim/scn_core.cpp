// allocsim scenarios: parse, copy, assignment, array/object mutation, dump,
// jsonpointer, mergepatch, jsonpatch.
#include "scn.hpp"
#include "../core/patchmodel.hpp"
#include <jsoncons/json.hpp>
#include <jsoncons_ext/jsonpointer/jsonpointer.hpp>
#include <jsoncons_ext/jsonpatch/jsonpatch.hpp>
#include <jsoncons_ext/mergepatch/mergepatch.hpp>

using namespace jsoncons;
using sim::MVal;

namespace allocsim {

// ---- helpers ----
template <class Json> static std::string text(const Json& j) { std::string s; j.dump(s); return s; }

// Structural validity of a value: walk everything, check object invariants.
template <class Json> static std::string validate(const Json& j, bool sorted, int depth = 0) {
    if (depth > 3000) return "too deep";
    if (j.is_object()) {
        const typename Json::key_type* prev = nullptr;
        std::size_t n = 0;
        for (const auto& kv : j.object_range()) {
            if (sorted && prev && !(*prev < kv.key())) return "sorted object not strictly sorted at key '" + std::string(kv.key()) + "'";
            prev = &kv.key();
            std::string e = validate(kv.value(), sorted, depth + 1); if (!e.empty()) return e;
            ++n;
        }
        if (n != j.size()) return "object size() inconsistent";
        if (!sorted) { // unique keys for ordered objects
            for (auto a = j.object_range().begin(); a != j.object_range().end(); ++a)
                for (auto b = a + 1; b != j.object_range().end(); ++b) if (a->key() == b->key()) return "ordered object has duplicate key";
        }
        for (const auto& kv : j.object_range()) { auto it = j.find(kv.key()); if (it == j.object_range().end()) return "member not found by find()"; }
    } else if (j.is_array()) {
        std::size_t n = 0;
        for (const auto& e : j.array_range()) { std::string r = validate(e, sorted, depth + 1); if (!r.empty()) return r; ++n; }
        if (n != j.size()) return "array size() inconsistent";
    } else if (j.is_string()) {
        auto sv = j.as_string_view(); volatile std::size_t h = 0; for (char c : sv) h += (unsigned char)c; (void)h;
    } else if (j.is_byte_string()) {
        auto bv = j.as_byte_string_view(); volatile std::size_t h = 0; for (auto c : bv) h += c; (void)h;
    }
    return "";
}
template <class Json> struct is_sorted_policy : std::true_type {};
template <> struct is_sorted_policy<ojson> : std::false_type {};

static const char* const kind_names[] = {"null", "bool", "int64", "uint64", "double", "half", "short_str", "long_str", "bigint_long", "byte_str", "empty_obj",
                                         "array", "object", "array_nested", "object_nested", "empty_array", "long_str2", "byte_str2"};
constexpr size_t n_kinds = sizeof(kind_names) / sizeof(kind_names[0]);

template <class Json> static Json make_kind(const std::string& k) {
    if (k == "null") return Json::null();
    if (k == "bool") return Json(true);
    if (k == "int64") return Json(int64_t(-1234567890123LL));
    if (k == "uint64") return Json(uint64_t(18446744073709551000ULL));
    if (k == "double") return Json(3.25);
    if (k == "half") return Json(half_arg, uint16_t(0x3e00));
    if (k == "short_str") return Json("short");
    if (k == "long_str") return Json("a long string that does not fit the inline buffer");
    if (k == "long_str2") return Json(std::string(300, 'q'));
    if (k == "bigint_long") return Json(std::string("123456789012345678901234567890123456789"), semantic_tag::bigint);
    if (k == "byte_str") { std::vector<uint8_t> b{1, 2, 3, 4, 5}; return Json(byte_string_arg, b); }
    if (k == "byte_str2") { std::vector<uint8_t> b(100, 0xab); return Json(byte_string_arg, b, semantic_tag::base64); }
    if (k == "empty_obj") return Json();
    if (k == "empty_array") return Json(json_array_arg);
    if (k == "array") { Json a(json_array_arg); a.push_back(1); a.push_back("a long string element, heap allocated"); a.push_back(2.5); return a; }
    if (k == "object") { Json o(json_object_arg); o.insert_or_assign("k1", 1); o.insert_or_assign("a long key that is heap allocated", "another long string value here"); return o; }
    if (k == "array_nested") { Json a(json_array_arg); a.push_back(make_kind<Json>("object")); a.push_back(make_kind<Json>("array")); a.push_back(make_kind<Json>("byte_str")); return a; }
    if (k == "object_nested") { Json o(json_object_arg); o.insert_or_assign("arr", make_kind<Json>("array")); o.insert_or_assign("obj", make_kind<Json>("object")); o.insert_or_assign("s", make_kind<Json>("long_str")); return o; }
    return Json::null();
}

// ---- parse ----
template <class Json> struct ParseScn : Scenario {
    std::string doc;
    void setup(const MVal& p) override { doc = sim::plan_text(p, "doc"); }
    std::string run() override { Json j = Json::parse(doc); return text(j); }
    std::string check(bool) override { return ""; }
};

struct ParseDecoderScn : Scenario {
    std::string doc, expected;
    void setup(const MVal& p) override { doc = sim::plan_text(p, "doc"); json j = json::parse(doc); expected = text(j); }
    std::string run() override {
        json_decoder<json> dec;
        json_string_reader rd(doc, dec);
        rd.read();
        json j = dec.get_result();
        return text(j);
    }
    std::string check(bool) override { return ""; }
};

// A decoder and a parser that outlive a failed parse must be reusable: the next parse gives the right value.
struct DecoderReuseScn : Scenario {
    std::string doc, other, expected_other;
    json_decoder<json> dec;
    json_parser parser;
    void setup(const MVal& p) override { doc = sim::plan_text(p, "doc"); other = sim::plan_text(p, "doc2"); json j = json::parse(other); expected_other = text(j); }
    std::string run() override {
        dec.reset(); parser.reset();
        parser.update(doc.data(), doc.size());
        parser.parse_some(dec); parser.finish_parse(dec); parser.check_done();
        json j = dec.get_result();
        return text(j);
    }
    std::string check(bool) override {
        dec.reset(); parser.reinitialize();
        parser.update(other.data(), other.size());
        parser.parse_some(dec); parser.finish_parse(dec); parser.check_done();
        if (!dec.is_valid()) return "decoder reused after a failed parse has no result";
        json j = dec.get_result();
        if (text(j) != expected_other) return "decoder/parser reused after a failed parse gives " + text(j).substr(0, 200) + " instead of " + expected_other.substr(0, 200);
        return "";
    }
};

struct ParseCursorScn : Scenario {
    std::string doc;
    void setup(const MVal& p) override { doc = sim::plan_text(p, "doc"); }
    std::string run() override {
        json_string_cursor cur(doc);
        std::string log;
        for (; !cur.done(); cur.next()) {
            const auto& ev = cur.current();
            log += std::to_string((int)ev.event_type()); log.push_back(' ');
            if (ev.event_type() == staj_event_type::string_value || ev.event_type() == staj_event_type::key) { auto sv = ev.get<jsoncons::string_view>(); log.append(sv.data(), sv.size()); }
        }
        return log;
    }
    std::string check(bool) override { return ""; }
};

// ---- deep copy ----
template <class Json> struct CopyScn : Scenario {
    Json src; std::string before;
    void setup(const MVal& p) override { src = Json::parse(sim::plan_text(p, "doc")); before = text(src); }
    std::string run() override { Json c(src); return text(c); }
    std::string check(bool) override {
        if (text(src) != before) return "const source changed by failed copy";
        return validate(src, is_sorted_policy<Json>::value);
    }
};

// ---- assignment over an existing value, every ordered pair of storage kinds ----
template <class Json, bool Move> struct AssignScn : Scenario {
    Json lhs, rhs; std::string rhs_before, lhs_before;
    void setup(const MVal& p) override {
        lhs = make_kind<Json>(p.gets("lhs_kind")); rhs = make_kind<Json>(p.gets("rhs_kind"));
        if (p.has("doc") && p.gets("lhs_kind") == "doc") lhs = Json::parse(sim::plan_text(p, "doc"));
        if (p.has("doc2") && p.gets("rhs_kind") == "doc") rhs = Json::parse(sim::plan_text(p, "doc2"));
        rhs_before = text(rhs); lhs_before = text(lhs);
    }
    std::string run() override {
        if (Move) { Json tmp(rhs); lhs = std::move(tmp); }
        else lhs = rhs;
        return text(lhs);
    }
    std::string check(bool threw) override {
        if (text(rhs) != rhs_before) return "right-hand side changed";
        std::string e = validate(lhs, is_sorted_policy<Json>::value); if (!e.empty()) return "lhs invalid: " + e;
        std::string now = text(lhs);   // must be dumpable
        if (!threw && now != rhs_before) return "assignment returned but lhs != rhs";
        // usable afterwards: assign again, fault-free
        lhs = rhs;
        if (text(lhs) != rhs_before) return "lhs not assignable after failed assignment";
        return "";
    }
};

// ---- array mutation across reallocation ----
struct ArrayOpsScn : Scenario {
    json arr, elem; std::string op; std::string elem_before; size_t size_before = 0; std::string arr_before;
    void setup(const MVal& p) override {
        arr = json(json_array_arg);
        json d = json::parse(sim::plan_text(p, "doc"));
        if (d.is_array()) arr = d; else arr.push_back(d);
        arr.shrink_to_fit();            // capacity == size: the next insertion reallocates
        elem = make_kind<json>(p.gets("rhs_kind"));
        op = p.gets("op"); elem_before = text(elem); size_before = arr.size(); arr_before = text(arr);
    }
    std::string run() override {
        if (op == "push_back") arr.push_back(elem);
        else if (op == "push_back_move") { json t(elem); arr.push_back(std::move(t)); }
        else if (op == "emplace_back") arr.emplace_back(elem);
        else if (op == "insert_front") arr.insert(arr.array_range().begin(), elem);
        else if (op == "insert_mid") arr.insert(arr.array_range().begin() + (arr.size() / 2), elem);
        else if (op == "insert_range") { json t(json_array_arg); t.push_back(elem); t.push_back(elem); arr.insert(arr.array_range().begin(), t.array_range().begin(), t.array_range().end()); }
        else if (op == "reserve") arr.reserve(arr.size() * 2 + 10);
        else if (op == "resize") arr.resize(arr.size() + 5);
        else if (op == "resize_val") arr.resize(arr.size() + 5, elem);
        else if (op == "emplace") arr.emplace(arr.array_range().begin(), elem);
        return text(arr);
    }
    std::string check(bool threw) override {
        if (text(elem) != elem_before) return "const element changed";
        std::string e = validate(arr, true); if (!e.empty()) return "array invalid: " + e;
        if (threw && arr.size() < size_before && op.find("resize") == std::string::npos) return "array lost elements on failed insertion";
        (void)text(arr);
        arr.push_back(1);               // still usable
        return "";
    }
};

// ---- object mutation, sorted and ordered policies ----
template <class Json> struct ObjectOpsScn : Scenario {
    Json obj, val, other; std::string op, key; std::string val_before, other_before; size_t size_before = 0;
    void setup(const MVal& p) override {
        Json d = Json::parse(sim::plan_text(p, "doc"));
        obj = Json(json_object_arg);
        if (d.is_object()) obj = d; else obj.insert_or_assign("seed", d);
        Json d2 = Json::parse(sim::plan_text(p, "doc2"));
        other = Json(json_object_arg);
        if (d2.is_object()) other = d2; else other.insert_or_assign("another rather long member name", d2);
        val = make_kind<Json>(p.gets("rhs_kind"));
        op = p.gets("op"); key = p.gets("key");
        val_before = text(val); other_before = text(other); size_before = obj.size();
    }
    std::string run() override {
        if (op == "insert_or_assign") obj.insert_or_assign(key, val);
        else if (op == "insert_or_assign_existing") { if (!obj.empty()) obj.insert_or_assign(obj.object_range().begin()->key(), val); else obj.insert_or_assign(key, val); }
        else if (op == "try_emplace") obj.try_emplace(key, val);
        else if (op == "merge") obj.merge(other);
        else if (op == "merge_move") { Json t(other); obj.merge(std::move(t)); }
        else if (op == "merge_or_update") obj.merge_or_update(other);
        else if (op == "erase_insert") { if (!obj.empty()) { std::string k(obj.object_range().begin()->key()); obj.erase(k); } obj.insert_or_assign(key, val); }
        else if (op == "subscript") { obj[key] = val; }
        else if (op == "insert_range") { std::vector<std::pair<std::string, Json>> v; v.emplace_back(key, val); v.emplace_back(key + "2", val); obj.insert(v.begin(), v.end()); }
        return text(obj);
    }
    std::string check(bool) override {
        if (text(val) != val_before) return "const value changed";
        if (text(other) != other_before) return "const merge source changed";
        std::string e = validate(obj, is_sorted_policy<Json>::value); if (!e.empty()) return "object invalid: " + e;
        (void)text(obj);
        obj.insert_or_assign("post-check key, long enough for the heap", 1);
        e = validate(obj, is_sorted_policy<Json>::value); if (!e.empty()) return "object invalid after reuse: " + e;
        return "";
    }
};

// ---- dump ----
template <class Json, int Mode> struct DumpScn : Scenario {
    Json j; std::string before;
    void setup(const MVal& p) override { j = Json::parse(sim::plan_text(p, "doc")); before = text(j); }
    std::string run() override {
        std::string s;
        if (Mode == 0) j.dump(s);
        else if (Mode == 1) j.dump_pretty(s);
        else if (Mode == 2) { std::ostringstream os; os << pretty_print(j); if (!os) throw std::ios_base::failure("ostream reports failure"); s = os.str(); }
        else { std::ostringstream os; j.dump(os); if (!os) throw std::ios_base::failure("ostream reports failure"); s = os.str(); }
        return s;
    }
    std::string check(bool) override { if (text(j) != before) return "const value changed by dump"; return ""; }
};

// ---- jsonpointer ----
struct PointerScn : Scenario {
    json doc, val; std::string op, ptr, before_val;
    void setup(const MVal& p) override { doc = json::parse(sim::plan_text(p, "doc")); val = make_kind<json>(p.gets("rhs_kind")); op = p.gets("op"); ptr = p.gets("ptr"); before_val = text(val); }
    std::string run() override {
        std::error_code ec;
        if (op == "add") jsonpointer::add(doc, ptr, val, ec);
        else if (op == "add_create") jsonpointer::add(doc, ptr + "/new1/new2", val, true, ec);
        else if (op == "add_if_absent") jsonpointer::add_if_absent(doc, ptr, val, ec);
        else if (op == "replace") jsonpointer::replace(doc, ptr, val, ec);
        else if (op == "remove") jsonpointer::remove(doc, ptr, ec);
        else if (op == "get") { json r = jsonpointer::get(doc, ptr, ec); return text(r) + (ec ? ec.message() : ""); }
        else if (op == "flatten") { json f = jsonpointer::flatten(doc); return text(f); }
        else if (op == "unflatten") { json f = jsonpointer::flatten(doc); json u = jsonpointer::unflatten(f); return text(u); }
        return text(doc) + (ec ? "|" + ec.message() : "");
    }
    std::string check(bool) override {
        if (text(val) != before_val) return "const value changed";
        std::string e = validate(doc, true); if (!e.empty()) return "document invalid: " + e;
        return "";
    }
};

// ---- merge patch ----
struct MergePatchScn : Scenario {
    json doc, patch; std::string patch_before; bool diff = false;
    void setup(const MVal& p) override { doc = json::parse(sim::plan_text(p, "doc")); patch = json::parse(sim::plan_text(p, "doc2")); patch_before = text(patch); diff = p.gets("op") == "from_diff"; }
    std::string run() override {
        if (diff) { json d = mergepatch::from_diff(doc, patch); return text(d); }
        mergepatch::apply_merge_patch(doc, patch); return text(doc);
    }
    std::string check(bool) override {
        if (text(patch) != patch_before) return "const patch changed";
        std::string e = validate(doc, true); if (!e.empty()) return "target invalid: " + e;
        return "";
    }
};

// ---- JSON Patch: state preservation is part of C19 ----
template <class Json> struct PatchScn : Scenario {
    Json doc, patch; MVal pre; std::string patch_before; bool use_ec = false; bool diff = false;
    bool returned = false;   // apply_patch itself returned (a later failure belongs to the harness's own dump)
    static MVal to_m(const Json& j) { return MVal::parse(text(j)); }
    void setup(const MVal& p) override {
        doc = Json::parse(sim::plan_text(p, "doc")); patch = Json::parse(sim::plan_text(p, "patch")); pre = to_m(doc); patch_before = text(patch);
        use_ec = p.getb("use_ec"); diff = p.gets("op") == "from_diff";
    }
    std::string run() override {
        if (diff) { Json d = jsonpatch::from_diff(doc, patch); return text(d); }
        returned = false;
        if (use_ec) { std::error_code ec; jsonpatch::apply_patch(doc, patch, ec); returned = true; return text(doc) + "|" + (ec ? ec.message() : "ok"); }
        try { jsonpatch::apply_patch(doc, patch); } catch (const jsonpatch::jsonpatch_error& e) { returned = true; return text(doc) + "|" + e.code().message(); }
        returned = true;
        return text(doc) + "|ok";
    }
    std::string check(bool threw) override {
        if (text(patch) != patch_before) return "const patch changed";
        std::string e = validate(doc, is_sorted_policy<Json>::value); if (!e.empty()) return "target invalid: " + e;
        if (threw && !diff && !returned) {
            MVal now = to_m(doc);
            if (!now.equals(pre)) return "apply_patch threw but target differs from its pre-call state: now " + now.dump() + " before " + pre.dump();
        }
        return "";
    }
};

void register_core(std::vector<Reg>& r) {
    r.push_back({"parse_json", maker<ParseScn<json>>, "doc"});
    r.push_back({"parse_ojson", maker<ParseScn<ojson>>, "doc"});
    r.push_back({"parse_decoder", maker<ParseDecoderScn>, "doc"});
    r.push_back({"parse_cursor", maker<ParseCursorScn>, "doc"});
    r.push_back({"decoder_reuse", maker<DecoderReuseScn>, "doc doc2"});
    r.push_back({"copy_json", maker<CopyScn<json>>, "doc"});
    r.push_back({"copy_ojson", maker<CopyScn<ojson>>, "doc"});
    r.push_back({"assign_copy", maker<AssignScn<json, false>>, "kinds doc doc2"});
    r.push_back({"assign_move", maker<AssignScn<json, true>>, "kinds doc doc2"});
    r.push_back({"assign_copy_ojson", maker<AssignScn<ojson, false>>, "kinds doc doc2"});
    r.push_back({"array_ops", maker<ArrayOpsScn>, "doc kinds arrayop"});
    r.push_back({"object_ops", maker<ObjectOpsScn<json>>, "doc doc2 kinds objectop key"});
    r.push_back({"object_ops_ojson", maker<ObjectOpsScn<ojson>>, "doc doc2 kinds objectop key"});
    r.push_back({"dump", maker<DumpScn<json, 0>>, "doc"});
    r.push_back({"dump_pretty", maker<DumpScn<json, 1>>, "doc"});
    r.push_back({"dump_pretty_stream", maker<DumpScn<ojson, 2>>, "doc"});
    r.push_back({"dump_stream", maker<DumpScn<json, 3>>, "doc"});
    r.push_back({"pointer", maker<PointerScn>, "doc kinds ptrop ptr"});
    r.push_back({"mergepatch", maker<MergePatchScn>, "doc doc2 mpop"});
    r.push_back({"patch_ok", maker<PatchScn<json>>, "doc patch"});
    r.push_back({"patch_ok_ojson", maker<PatchScn<ojson>>, "doc patch"});
    r.push_back({"patch_abort", maker<PatchScn<json>>, "doc badpatch"});
    r.push_back({"patch_abort_ojson", maker<PatchScn<ojson>>, "doc badpatch"});
    r.push_back({"patch_from_diff", maker<PatchScn<json>>, "doc diffpatch"});
}

} // namespace allocsim
