#include "iosim.hpp"
#include <map>
#include <vector>
#include <sstream>

using namespace jsoncons;
namespace iosim {

struct JsonT {
    using char_type = char;
    template <class Source> using reader_t = basic_json_reader<char, Source>;
    template <class Source> using cursor_t = basic_json_cursor<char, Source>;
    static json_options make_options(const MVal& o) {
        json_options opt;
        if (o.has("max_depth")) opt.max_nesting_depth((int)o.geti("max_depth"));
        if (o.getb("comments")) opt.allow_comments(true);
        if (o.getb("trailing_comma")) opt.allow_trailing_comma(true);
        if (o.getb("lossless")) opt.lossless_number(true);
        if (o.getb("bignum")) opt.lossless_bignum(true);
        return opt;
    }
    template <class C> static void cursor_check_done(C& c, std::error_code& ec) { c.check_done(ec); }
};

static Outcome run(const std::string& mode, const Delivery& d, const Ctx& cx) { return Modes<JsonT>::run(mode, d, cx); }

// Incremental push parser, driven exactly the way basic_json_reader drives it, with the plan's chunks.
static Outcome push(const Delivery& d, const Ctx& cx) {
    Outcome o; Rec rec; std::error_code ec;
    const std::string& B = *cx.B;
    std::vector<std::pair<size_t, size_t>> pieces; // offset, length; never empty pieces
    size_t off = 0;
    for (size_t c : d.chunks) { if (off >= B.size()) break; size_t n = std::min(c ? c : 1, B.size() - off); pieces.emplace_back(off, n); off += n; }
    if (off < B.size()) pieces.emplace_back(off, B.size() - off);
    try {
        json_parser parser(JsonT::make_options(*cx.opts));
        size_t i = 0;
        bool bad = false;
        while (!parser.stopped()) {
            if (parser.source_exhausted() && i < pieces.size()) { parser.update(B.data() + pieces[i].first, pieces[i].second); ++i; }
            bool eof = parser.source_exhausted();
            parser.parse_some(rec, ec);
            if (ec) { bad = true; break; }
            if (eof) {
                if (parser.enter()) break;
                else if (!parser.accept()) { ec = json_errc::unexpected_eof; bad = true; break; }
            }
        }
        if (!bad) {
            // trailing content: same as basic_json_reader::check_done
            if (!parser.source_exhausted()) parser.check_done(ec);
            while (!ec && i < pieces.size()) { parser.update(B.data() + pieces[i].first, pieces[i].second); ++i; parser.check_done(ec); }
            if (!ec && parser.source_exhausted() && i >= pieces.size()) parser.check_done(ec);
        }
    } catch (...) { o.events = rec.log; classify_exception(o, "push"); return o; }
    o.events = std::move(rec.log); o.error = ec_str(ec); o.delivered = B.size();
    return o;
}

// Convenience entry points: the library builds the source itself.
static Outcome entry(const std::string& which, const Delivery& d, const Ctx& cx) {
    Outcome o; const std::string& B = *cx.B;
    auto opts = JsonT::make_options(*cx.opts);
    try {
        ojson j;
        if (which == "view") j = ojson::parse(jsoncons::string_view(B.data(), B.size()), opts);
        else if (which == "iter") j = ojson::parse(B.begin(), B.end(), opts);
        else if (which == "typed") {
            // typed decoding through the reflection traits (decode_json<std::map / std::vector>): the container follows the first significant character
            size_t i = B.find_first_not_of(" \t\r\n");
            if (i != std::string::npos && B[i] == '{') { auto m = decode_json<std::map<std::string, ojson>>(B, opts); j = ojson(json_object_arg); for (auto& kv : m) j.insert_or_assign(kv.first, kv.second); }
            else if (i != std::string::npos && B[i] == '[') { auto v = decode_json<std::vector<ojson>>(B, opts); j = ojson(json_array_arg); for (auto& e : v) j.push_back(e); }
            else j = decode_json<ojson>(B, opts);
        }
        else {
            sim::SimStreambuf sb(B.data(), B.size(), d.getarea);
            sb.limits(4 * B.size() + 64 + 4 * (B.size() / d.getarea + 1), 64);
            std::istream is(&sb);
            try { j = ojson::parse(is, opts); } catch (...) { o.reads = sb.reads; throw; }
            o.reads = sb.reads;
        }
        Rec rec; j.dump(rec); o.events = std::move(rec.log);
    } catch (...) { classify_exception(o, "entry"); }
    o.delivered = B.size();
    return o;
}

// ---- input rendering: JSON text with seeded whitespace / escape / line-end variation
static void render(const MVal& v, sim::Rng& r, std::string& out, int style, int depth) {
    auto ws = [&]() {
        if (style == 0) return;
        unsigned n = (unsigned)r.below(style == 1 ? 2 : 4);
        for (unsigned i = 0; i < n; ++i) { unsigned c = (unsigned)r.below(6); out += c == 0 ? " " : c == 1 ? "\n" : c == 2 ? "\r\n" : c == 3 ? "\t" : c == 4 ? "\r" : "  "; }
        // comments (valid only under allow_comments; otherwise the same bytes are an invalid input, which is just as good a test)
        if (style == 3 && r.chance(1, 6)) { unsigned c = (unsigned)r.below(4); out += c == 0 ? "/*c*/" : c == 1 ? "//x\n" : c == 2 ? "/* a\r\n * b */" : "//\r\n"; }
    };
    auto str = [&](const std::string& s) {
        out.push_back('"');
        for (size_t i = 0; i < s.size();) {
            unsigned char c = (unsigned char)s[i];
            if (c == '"') { out += "\\\""; ++i; }
            else if (c == '\\') { out += "\\\\"; ++i; }
            else if (c == '/') { out += r.coin() ? "\\/" : "/"; ++i; }
            else if (c == '\n') { out += r.coin() ? "\\n" : "\\u000a"; ++i; }
            else if (c == '\t') { out += r.coin() ? "\\t" : "\\u0009"; ++i; }
            else if (c < 0x20) { char b[8]; snprintf(b, sizeof b, r.coin() ? "\\u%04x" : "\\u%04X", c); out += b; ++i; }
            else if (c < 0x80) { if (style == 3 && r.chance(1, 6)) { char b[8]; snprintf(b, sizeof b, "\\u%04x", c); out += b; } else out.push_back((char)c); ++i; }
            else {
                // decode one UTF-8 sequence; sometimes emit it as \u escapes (surrogate pairs for astral)
                uint32_t cp = 0; int n = c >= 0xF0 ? 4 : c >= 0xE0 ? 3 : 2;
                cp = c & (0xFF >> (n + 1));
                for (int k = 1; k < n && i + k < s.size(); ++k) cp = (cp << 6) | ((unsigned char)s[i + k] & 0x3F);
                if (r.chance(1, 3)) {
                    char b[16];
                    if (cp >= 0x10000) { uint32_t u = cp - 0x10000; snprintf(b, sizeof b, "\\u%04x\\u%04x", 0xD800 + (u >> 10), 0xDC00 + (u & 0x3FF)); }
                    else snprintf(b, sizeof b, "\\u%04x", cp);
                    out += b;
                } else out.append(s, i, (size_t)n);
                i += (size_t)n;
            }
        }
        out.push_back('"');
    };
    switch (v.k) {
    case MVal::Null: out += "null"; break;
    case MVal::Bool: out += v.b ? "true" : "false"; break;
    case MVal::Int: out += std::to_string(v.i); if (r.chance(1, 12)) out += r.coin() ? "e2" : ".0"; break;
    case MVal::UInt: out += std::to_string(v.u); break;
    case MVal::Dbl: { char b[40]; snprintf(b, sizeof b, r.coin() ? "%.17g" : "%.6e", v.d); out += b; if (!strpbrk(b, ".eE")) out += ".5"; break; }
    case MVal::Str: str(v.s); break;
    case MVal::Arr:
        out.push_back('['); ws();
        for (size_t i = 0; i < v.a.size(); ++i) { if (i) { out.push_back(','); ws(); } render(v.a[i], r, out, style, depth + 1); ws(); }
        out.push_back(']'); break;
    case MVal::Obj:
        out.push_back('{'); ws();
        for (size_t i = 0; i < v.o.size(); ++i) { if (i) { out.push_back(','); ws(); } str(v.o[i].first); ws(); out.push_back(':'); ws(); render(v.o[i].second, r, out, style, depth + 1); ws(); }
        out.push_back('}'); break;
    }
}

static std::string encode(const std::string& json_text, uint64_t variant) {
    MVal v = MVal::parse(json_text);
    sim::Rng r(variant);
    std::string out;
    int style = (int)(variant % 4);
    if (style >= 2 && r.chance(1, 3)) out += r.coin() ? " \n" : "\r\n\t";
    render(v, r, out, style, 0);
    if (style >= 1 && r.chance(1, 3)) out += r.coin() ? "\n" : " \r\n ";
    return out;
}

static std::vector<std::string> seeds() {
    return {
        "[01]", "[-01]", "00", "[0]", "-0", "[1.0e+10,1E-2,0.5,-0.0]", "[1e", "[1.", "[1.e3]", "[-]", "[+1]", "[.5]", "123456789012345678901234567890", "-123456789012345678901234567890.5e-3",
        "\"\\ud83d\\ude00\"", "\"\\ud83d\"", "\"\\ud83dx\"", "\"\\ude00\"", "\"\\u00e9\\u20ac\"", "\"\xf0\x9f\x98\x80\xe2\x82\xac\xc3\xa9\"", "\"\\u12\"", "\"\\x\"", "\"abc", "\"a\\", "\"\x01\"", "\"\xff\"", "\"\xc3\"",
        "tru", "true", "truee", "nul", "null ", "fals", "false,", "[true,false,null]", "[tru]", "{\"a\":nul}",
        "{}", "{\"a\":1,\"a\":2}", "{\"a\":1,}", "[1,]", "[,1]", "{,}", "{\"a\"}", "{\"a\":}", "{a:1}", "[1 2]", "[1]]", "[[1]", "{\"a\":{\"b\":[{}]}}",
        "/*c*/[1,/*x*/2]//e\n", "[1,//c\n2]", "/", "/*", "[1]/*", "# no", "[1] 2", "1 2", "[1]\n\r\n\t ", "\r\n[\r\n1\r,\n2\r\n]\r\n", "",  " ", "\n",
        "[\"" + std::string(300, 'a') + "\"]", "[\"" + std::string(255, 'b') + "\\n" + std::string(255, 'c') + "\"]", "{\"" + std::string(257, 'k') + "\":" + std::string(40, '9') + "}",
        "[[[[[[[[[[[[[[[[[[[[1]]]]]]]]]]]]]]]]]]]]", "[1.7976931348623157e308,4.9e-324,1e400,-1e400]", "[9223372036854775807,9223372036854775808,-9223372036854775808,-9223372036854775809,18446744073709551615,18446744073709551616]",
        "\"NaN\"", "[\"Infinity\",\"-Infinity\"]", "\r", " \r", "\n\r", "\r\n", "\t", "\xef\xbb\xbf[1]",
    };
}

static Outcome encode_to_sink(const std::string& json_text, size_t capacity, int kind, uint64_t variant) {
    Outcome o;
    try {
        ojson j = ojson::parse(json_text);
        sim::SimOutbuf ob(capacity, kind > 2 ? kind - 2 : kind);
        std::ostream os(&ob);
        if (kind > 2) os.exceptions(std::ios::badbit | std::ios::failbit);
        if (variant % 3 == 0) j.dump(os);
        else if (variant % 3 == 1) j.dump_pretty(os);
        else { json_stream_encoder enc(os); j.dump(enc); enc.flush(); }
        o.events = os.good() ? "good" : "stream-failed";
        o.stream_failed = ob.failures_fired > 0;
        o.delivered = ob.written.size();
    } catch (...) { classify_exception(o, "encode_to_sink"); }
    return o;
}

static Outcome encoder_nest(int ckind, size_t depth, int limit) {
    auto opt = json_options{}.max_nesting_depth(limit);
    // the pretty printer's output is quadratic in the depth (indentation), so it is used for moderate depths only
    if ((depth & 1) && depth <= 2000) return encoder_nest_impl<json_string_encoder, std::string, json_options>(ckind, depth, opt, false);
    return encoder_nest_impl<compact_json_string_encoder, std::string, json_options>(ckind, depth, opt, false);
}

const FormatApi& json_api() { static FormatApi a{"json", true, run, entry, push, encode, seeds, encode_to_sink, encoder_nest}; return a; }

} // namespace iosim
