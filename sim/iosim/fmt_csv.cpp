#include "iosim.hpp"
#include <jsoncons_ext/csv/csv.hpp>
#include <sstream>

using namespace jsoncons;
namespace iosim {

struct CsvT {
    using char_type = char;
    template <class Source> using reader_t = csv::basic_csv_reader<char, Source>;
    template <class Source> using cursor_t = csv::basic_csv_cursor<char, Source>;
    static csv::csv_options make_options(const MVal& o) {
        csv::csv_options opt;
        opt.assume_header(o.getb("header", true));
        int m = (int)o.geti("mapping", 0);
        opt.mapping_kind(m == 1 ? csv::csv_mapping_kind::n_rows : m == 2 ? csv::csv_mapping_kind::m_columns : csv::csv_mapping_kind::n_objects);
        if (o.has("infer")) opt.infer_types(o.getb("infer"));
        if (o.getb("trim")) opt.trim(true);
        if (o.getb("subfield")) opt.subfield_delimiter(';');
        if (o.getb("comment")) opt.comment_starter('#');
        if (o.getb("null_empty")) opt.unquoted_empty_value_is_null(true);
        if (o.getb("keep_empty_lines")) opt.ignore_empty_lines(false);
        if (o.getb("lossless")) opt.lossless_number(true);
        if (o.has("max_depth")) opt.max_nesting_depth((std::size_t)o.getu("max_depth"));
        if (o.has("column_types")) opt.column_types(o.gets("column_types"));
        if (o.has("column_names")) opt.column_names(o.gets("column_names"));
        if (o.has("column_defaults")) opt.column_defaults(o.gets("column_defaults"));
        if (o.has("header_lines")) opt.header_lines((std::size_t)o.getu("header_lines"));
        if (o.has("delim")) opt.field_delimiter((char)o.getu("delim"));
        if (o.has("max_lines")) opt.max_lines((std::size_t)o.getu("max_lines"));
        if (o.getb("ignore_empty_values")) opt.ignore_empty_values(true);
        if (o.has("quote_char")) opt.quote_char((char)o.getu("quote_char"));
        if (o.getb("trim_in_quotes")) { opt.trim_leading_inside_quotes(true); opt.trim_trailing_inside_quotes(true); }
        return opt;
    }
    template <class C> static void cursor_check_done(C&, std::error_code&) {}
};

static Outcome run(const std::string& mode, const Delivery& d, const Ctx& cx) { return Modes<CsvT>::run(mode, d, cx); }

static Outcome push(const Delivery& d, const Ctx& cx) {
    Outcome o; Rec rec; std::error_code ec;
    const std::string& B = *cx.B;
    std::vector<std::pair<size_t, size_t>> pieces; size_t off = 0;
    for (size_t c : d.chunks) { if (off >= B.size()) break; size_t n = std::min(c ? c : 1, B.size() - off); pieces.emplace_back(off, n); off += n; }
    if (off < B.size()) pieces.emplace_back(off, B.size() - off);
    try {
        csv::csv_parser parser(CsvT::make_options(*cx.opts));
        size_t i = 0;
        while (!parser.stopped()) {      // same loop as basic_csv_reader::read_internal
            if (parser.source_exhausted() && i < pieces.size()) { parser.update(B.data() + pieces[i].first, pieces[i].second); ++i; }
            parser.parse_some(rec, ec);
            if (ec) break;
        }
    } catch (...) { o.events = rec.log; classify_exception(o, "push"); return o; }
    o.events = std::move(rec.log); o.error = ec_str(ec); o.delivered = B.size();
    return o;
}

static Outcome entry(const std::string& which, const Delivery& d, const Ctx& cx) {
    Outcome o; const std::string& B = *cx.B;
    auto opts = CsvT::make_options(*cx.opts);
    try {
        ojson j;
        if (which == "view") j = csv::decode_csv<ojson>(B, opts);
        else if (which == "iter") j = csv::decode_csv<ojson>(B.begin(), B.end(), opts);
        else {
            sim::SimStreambuf sb(B.data(), B.size(), d.getarea);
            sb.limits(4 * B.size() + 64 + 4 * (B.size() / d.getarea + 1), 64);
            std::istream is(&sb);
            try { j = csv::decode_csv<ojson>(is, opts); } catch (...) { o.reads = sb.reads; throw; }
            o.reads = sb.reads;
        }
        Rec rec; j.dump(rec); o.events = std::move(rec.log);
    } catch (...) { classify_exception(o, "entry"); }
    o.delivered = B.size();
    return o;
}

// Render a JSON document as a CSV table (flattening: arrays of arrays / objects / scalars become cells).
static void cell(const MVal& v, sim::Rng& r, std::string& out) {
    auto quoted = [&](const std::string& s) { out.push_back('"'); for (char c : s) { if (c == '"') out += "\"\""; else out.push_back(c); } out.push_back('"'); };
    switch (v.k) {
    case MVal::Null: out += r.coin() ? "" : "null"; break;
    case MVal::Bool: out += v.b ? "true" : "false"; break;
    case MVal::Int: out += std::to_string(v.i); break;
    case MVal::UInt: out += std::to_string(v.u); break;
    case MVal::Dbl: { char b[40]; snprintf(b, sizeof b, "%.17g", v.d); out += b; break; }
    case MVal::Str: {
        bool need = v.s.find_first_of(",\"\r\n;#") != std::string::npos || (!v.s.empty() && (v.s.front() == ' ' || v.s.back() == ' '));
        std::string s; for (char c : v.s) if ((unsigned char)c >= 0x20 || c == '\n' || c == '\t') s.push_back(c);
        if (need || r.chance(1, 4)) quoted(s); else out += s;
        break;
    }
    default: { std::string t = v.dump(); quoted(t); }
    }
}
static std::string encode(const std::string& json_text, uint64_t variant) {
    MVal v = MVal::parse(json_text);
    sim::Rng r(variant);
    std::string out;
    const char* eol = variant % 3 == 0 ? "\n" : variant % 3 == 1 ? "\r\n" : "\r";
    std::vector<const MVal*> rows;
    if (v.k == MVal::Arr) for (auto& e : v.a) rows.push_back(&e); else rows.push_back(&v);
    size_t cols = 1 + r.below(4);
    for (size_t c = 0; c < cols; ++c) { if (c) out.push_back(','); out += "col" + std::to_string(c); }
    out += eol;
    for (const MVal* row : rows) {
        std::vector<const MVal*> cells;
        if (row->k == MVal::Arr) for (auto& e : row->a) cells.push_back(&e);
        else if (row->k == MVal::Obj) for (auto& kv : row->o) cells.push_back(&kv.second);
        else cells.push_back(row);
        for (size_t c = 0; c < cells.size() || c < cols; ++c) { if (c) out.push_back(','); if (c < cells.size()) cell(*cells[c], r, out); if (c > cols + 2) break; }
        out += eol;
        if (r.chance(1, 10)) out += eol;                 // empty line
        if (r.chance(1, 12)) { out += "#comment"; out += eol; }
    }
    if (r.coin() && !out.empty()) out.resize(out.size() - strlen(eol));  // no final line end
    return out;
}

static std::vector<std::string> seeds() {
    return {
        "a,b\n1,2\n", "a,b\r\n1,2\r\n", "a,b\r1,2\r", "a,b\n\"x,y\",\"q\"\"q\"\n", "a,b\n\"multi\nline\",2\n", "a,b\n\"unterminated,2\n", "a,b\n1,2", "a\n", "", "\n", "\r\n\r\n",
        "a,b,c\n1,2\n1,2,3,4\n", "a,b\n 1 , 2 \n", "a,b\n1.5e3,-0\n", "a,b\ntrue,null\n", "a,b\n\"\",\n", "a,b\n1;2;3,4\n", "#c\na,b\n1,2\n", "a,b\n\"x\"y,2\n", "a,b\n\"x\" ,2\n",
        "a,b\n" + std::string(300, 'x') + "," + std::string(300, '9') + "\n", "a,b\n123456789012345678901234567890,1e999\n", "a,a\n1,2\n", "\"a\nb\",c\n1,2\n", "a,b\n1,2\n\n\n3,4\n", "a,b\n\xff\xfe,2\n",
    };
}

static Outcome encode_to_sink(const std::string& json_text, size_t capacity, int kind, uint64_t) {
    Outcome o;
    try {
        std::string text = encode(json_text, 1);
        ojson j = csv::decode_csv<ojson>(text, csv::csv_options{}.assume_header(true));
        sim::SimOutbuf ob(capacity, kind > 2 ? kind - 2 : kind);
        std::ostream os(&ob);
        if (kind > 2) os.exceptions(std::ios::badbit | std::ios::failbit);
        csv::encode_csv(j, os);
        o.events = os.good() ? "good" : "stream-failed";
        o.stream_failed = ob.failures_fired > 0; o.delivered = ob.written.size();
    } catch (...) { classify_exception(o, "encode_to_sink"); }
    return o;
}

const FormatApi& csv_api() { static FormatApi a{"csv", true, run, entry, push, encode, seeds, encode_to_sink, nullptr}; return a; }

} // namespace iosim
