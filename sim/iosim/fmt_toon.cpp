// TOON: reader and decoder under every delivery and transit / stream / sink fault (C05 lists TOON among the decoders).
// There is no TOON cursor; the other access modes are reported as unsupported.
#include "iosim.hpp"
#include <jsoncons_ext/toon/toon.hpp>
#include <jsoncons_ext/toon/toon_reader.hpp>
#include <jsoncons_ext/toon/decode_toon.hpp>
#include <sstream>

using namespace jsoncons;
namespace iosim {

static toon::toon_options make_toon_options(const MVal&) { return toon::toon_options{}; }

template <class Source> static void toon_read(Source&& src, const std::string& mode, const Ctx& cx, Outcome& o) {
    auto opts = make_toon_options(*cx.opts);
    if (mode == "reader") {
        Rec rec; rec.cap = cx.cap;
        try {
            toon::basic_toon_reader<typename std::decay<Source>::type> rd(std::move(src), rec, opts);
            auto r = rd.try_read();
            o.error = r ? std::string() : ec_str(r.error().code());
        } catch (...) { o.events = rec.log; o.produced = rec.events; throw; }
        o.produced = rec.events; o.events = std::move(rec.log);
    } else {
        json_decoder<ojson> dec;
        toon::basic_toon_reader<typename std::decay<Source>::type> rd(std::move(src), dec, opts);
        auto r = rd.try_read();
        o.error = r ? std::string() : ec_str(r.error().code());
        if (r && dec.is_valid()) { Rec rec; ojson j = dec.get_result(); j.dump(rec); o.produced = rec.events; o.events = std::move(rec.log); }
        else if (r) o.events = "<no value>";
    }
}

static Outcome run(const std::string& mode, const Delivery& d, const Ctx& cx) {
    Outcome o;
    if (mode != "reader" && mode != "decoder") { o.error = "unsupported"; return o; }
    uint64_t live0 = sim::ledger::live_bytes();
    sim::ledger::reset_peak();
    auto call = [&](auto&& src) { toon_read(std::move(src), mode, cx, o); };
    with_source<char>(d, cx, o, call);
    o.peak = sim::ledger::peak_bytes() > live0 ? sim::ledger::peak_bytes() - live0 : 0;
    return o;
}
static Outcome push(const Delivery&, const Ctx&) { Outcome o; o.error = "unsupported"; return o; }
static Outcome entry(const std::string& which, const Delivery& d, const Ctx& cx) {
    Outcome o; const std::string& B = *cx.B;
    try {
        ojson j;
        if (which == "stream") {
            sim::SimStreambuf sb(B.data(), B.size(), d.getarea);
            sb.limits(4 * B.size() + 64 + 4 * (B.size() / d.getarea + 1), 64);
            std::istream is(&sb);
            try { j = toon::decode_toon<ojson>(is); } catch (...) { o.reads = sb.reads; throw; }
            o.reads = sb.reads;
        } else j = toon::decode_toon<ojson>(B);
        Rec rec; j.dump(rec); o.events = std::move(rec.log);
    } catch (...) { classify_exception(o, "entry"); }
    o.delivered = B.size();
    return o;
}
static std::string encode(const std::string& json_text, uint64_t) {
    ojson j = ojson::parse(json_text);
    std::string out;
    try { toon::encode_toon(j, out); } catch (const std::exception&) { out = "a: 1\n"; }
    return out;
}
static std::vector<std::string> seeds() {
    return {
        "", "a: 1\n", "a: 1", "name: Ada\nage: 36\n", "tags[3]: a,b,c\n", "items[2]{id,name}:\n  1,Ada\n  2,Bob\n", "items[2]{id,name}:\n  1,Ada\n", "items[3]: 1,2\n",
        "user:\n  name: Ada\n  roles[2]: admin,dev\n", "list[2]:\n  - 1\n  - x: 2\n    y: 3\n", "s: \"quoted, \\\"text\\\"\\n\"\n", "s: \"unterminated\n", "k: [1,2\n", "a:\n    b: 1\n  c: 2\n", "a: 1\na: 2\n",
        "x[2]{a,b}:\n  1,2\n  3,4\n  5,6\n", "n: -0.5e3\nb: true\nz: null\n", "[3]: 1,2,3\n", "[2]:\n  - a\n  - b\n", "\xff\xfe: 1\n", "a:\tb\n", "a: 1\r\nb: 2\r\n", "deep:\n  a:\n    b:\n      c:\n        d: 1\n",
        // list items: first field / following fields being array headers with and without key, tabular and nested lists
        "[1]:\n  - k[2]: 1,2\n    m[1]: 3\n", "[1]:\n  - a: 1\n    [2]: x,y\n", "[1]:\n  - [2]: 1,2\n", "[1]:\n  - [2]:\n    - 1\n    - 2\n", "[1]:\n  - a[1]{x}:\n      1\n    b: 2\n",
        "[2]:\n  -:\n    [2]", "[2]:\n  - a:\n      b: 1\n    c[2]: 1,2\n  - d: 2\n", "[1]:\n  - k[1]:\n      - z: 1\n        [1]: 2\n", "[2|]: 1|2\n", "[2\t]: 1\t2\n", "a[#2]: 1,2\n", "a[2]{x,y:\n  1,2\n",
        "[3]:\n  - 1\n\n  - 2\n  - 3\n", "[1]:\n  -\n", "[1]:\n  - \"q\": 1\n    \"r\"[1]: 2\n", "\"k\"[1]{\"a\"}:\n  1\n", "a.b.c: 1\n", "a:\n  - 1\n", "[0]:\n", "x[0]:\ny: 1\n",
        // scalar tokens around the number grammar: exponents without mantissa, huge / overlong exponents, signs, leading zeros
        "e5", "E732760", "x: 1e5\n", "x: 1e400\n", "x: -e3\n", "e000000000000000000000", "x: 1E+99999999999999999999\n", "x: 1e-400\n", "x: 0e9999999\n", "[3]: 1e2,-0,01\n", "x: 1.5e-3\ny: -0.0\nz: 1.\n", "x: .5\n", "x: +1\n", "x: 1e\n", "x: 1e+\n", "x: --1\n", "x: 0x10\n",
    };
}
// encode_toon(value, std::ostream&) does not compile in the pinned tree (try_encode_toon calls encode_value with
// three arguments where four are required), so there is no TOON stream sink to inject failures into.
static Outcome encode_to_sink(const std::string&, size_t, int, uint64_t) { Outcome o; o.events = "good"; return o; }

const FormatApi& toon_api() { static FormatApi a{"toon", true, run, entry, push, encode, seeds, encode_to_sink, nullptr}; return a; }

} // namespace iosim
