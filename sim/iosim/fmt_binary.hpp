// Shared implementation of the four binary formats' iosim entry points.
#pragma once
#include "iosim.hpp"
#include <sstream>

namespace iosim {

// B describes the format: B::T traits (reader/cursor/options), decode overloads, encode.
template <class B> struct BinaryFmt {
    static Outcome run(const std::string& mode, const Delivery& d, const Ctx& cx) { return Modes<typename B::T>::run(mode, d, cx); }
    static Outcome push(const Delivery&, const Ctx&) { Outcome o; o.error = "unsupported"; return o; }
    static Outcome entry(const std::string& which, const Delivery& d, const Ctx& cx) {
        Outcome o; const std::string& Bs = *cx.B;
        auto opts = B::T::make_options(*cx.opts);
        try {
            jsoncons::ojson j;
            if (which == "view") { std::vector<uint8_t> v(Bs.begin(), Bs.end()); j = B::decode_view(v, opts); }
            else if (which == "iter") { std::vector<uint8_t> v(Bs.begin(), Bs.end()); j = B::decode_iter(v.begin(), v.end(), opts); }
            else {
                sim::SimStreambuf sb(Bs.data(), Bs.size(), d.getarea);
                sb.limits(4 * Bs.size() + 64 + 4 * (Bs.size() / d.getarea + 1), 64);
                std::istream is(&sb);
                try { j = B::decode_stream(is, opts); } catch (...) { o.reads = sb.reads; throw; }
                o.reads = sb.reads;
            }
            Rec rec; j.dump(rec); o.events = std::move(rec.log);
        } catch (...) { classify_exception(o, "entry"); }
        o.delivered = Bs.size();
        return o;
    }
    static std::string encode(const std::string& json_text, uint64_t variant) {
        jsoncons::ojson j = jsoncons::ojson::parse(json_text);
        std::vector<uint8_t> out;
        try { B::encode(j, out, variant); } catch (const std::exception&) { out.clear(); jsoncons::ojson o(jsoncons::json_object_arg); o.insert_or_assign("fallback", 1); B::encode(o, out, 0); }
        return std::string(out.begin(), out.end());
    }
    static Outcome encode_to_sink(const std::string& json_text, size_t capacity, int kind, uint64_t variant) {
        Outcome o;
        try {
            jsoncons::ojson j = jsoncons::ojson::parse(json_text);
            sim::SimOutbuf ob(capacity, kind > 2 ? kind - 2 : kind);
            std::ostream os(&ob);
        if (kind > 2) os.exceptions(std::ios::badbit | std::ios::failbit);
            B::encode_stream(j, os, variant);
            o.events = os.good() ? "good" : "stream-failed";
            o.stream_failed = ob.failures_fired > 0; o.delivered = ob.written.size();
        } catch (...) { classify_exception(o, "encode_to_sink"); }
        return o;
    }
    static std::vector<std::string> seeds() { std::vector<std::string> r; for (const char* const* p = B::seed_hex(); *p; ++p) r.push_back(sim::from_hex(*p)); return r; }
    static Outcome encoder_nest(int ckind, size_t depth, int limit) { return B::encoder_nest(ckind, depth, limit); }
    static const FormatApi& api() { static FormatApi a{B::name(), false, run, entry, push, encode, seeds, encode_to_sink, encoder_nest}; return a; }
};

} // namespace iosim
