#include "fmt_binary.hpp"
#include "../core/binseeds.hpp"
#include <jsoncons_ext/msgpack/msgpack.hpp>
using namespace jsoncons;
namespace iosim {
struct MsgpackT {
    using char_type = uint8_t;
    template <class S> using reader_t = msgpack::basic_msgpack_reader<S>;
    template <class S> using cursor_t = msgpack::basic_msgpack_cursor<S>;
    static msgpack::msgpack_options make_options(const MVal& o) { msgpack::msgpack_options opt; if (o.has("max_depth")) opt.max_nesting_depth((int)o.geti("max_depth")); return opt; }
    template <class C> static void cursor_check_done(C&, std::error_code&) {}
};
struct MsgpackB {
    using T = MsgpackT;
    static const char* name() { return "msgpack"; }
    template <class O> static ojson decode_view(const std::vector<uint8_t>& v, const O& o) { return msgpack::decode_msgpack<ojson>(v, o); }
    template <class It, class O> static ojson decode_iter(It a, It b, const O& o) { return msgpack::decode_msgpack<ojson>(a, b, o); }
    template <class O> static ojson decode_stream(std::istream& is, const O& o) { return msgpack::decode_msgpack<ojson>(is, o); }
    static void encode(const ojson& j, std::vector<uint8_t>& out, uint64_t) { msgpack::encode_msgpack(j, out); }
    static void encode_stream(const ojson& j, std::ostream& os, uint64_t) { msgpack::encode_msgpack(j, os); }
    static Outcome encoder_nest(int ckind, size_t depth, int limit) { auto opt = msgpack::msgpack_options{}.max_nesting_depth(limit); return encoder_nest_impl<msgpack::msgpack_bytes_encoder, std::vector<uint8_t>, msgpack::msgpack_options>(ckind, depth, opt, false); }
    static const char* const* seed_hex() { return sim::binseeds::msgpack(); }
};
const FormatApi& msgpack_api() { return BinaryFmt<MsgpackB>::api(); }
}
