#include "fmt_binary.hpp"
#include <jsoncons_ext/msgpack/msgpack.hpp>
using namespace jsoncons;
namespace iosim {
struct MsgpackT {
    using char_type = uint8_t;
    template <class S> using reader_t = msgpack::basic_msgpack_reader<S>;
    template <class S> using cursor_t = msgpack::basic_msgpack_cursor<S>;
    static msgpack::msgpack_options make_options(const MVal& o) { msgpack::msgpack_options opt; if (o.has("max_depth")) opt.max_nesting_depth((int)o.geti("max_depth")); return opt; }
    template <class C> static void cursor_check_done(C&, std::error_code&) {}
};
struct MsgpackB {
    using T = MsgpackT;
    static const char* name() { return "msgpack"; }
    template <class O> static ojson decode_view(const std::vector<uint8_t>& v, const O& o) { return msgpack::decode_msgpack<ojson>(v, o); }
    template <class It, class O> static ojson decode_iter(It a, It b, const O& o) { return msgpack::decode_msgpack<ojson>(a, b, o); }
    template <class O> static ojson decode_stream(std::istream& is, const O& o) { return msgpack::decode_msgpack<ojson>(is, o); }
    static void encode(const ojson& j, std::vector<uint8_t>& out, uint64_t) { msgpack::encode_msgpack(j, out); }
    static void encode_stream(const ojson& j, std::ostream& os, uint64_t) { msgpack::encode_msgpack(j, os); }
    static Outcome encoder_nest(int ckind, size_t depth, int limit) { auto opt = msgpack::msgpack_options{}.max_nesting_depth(limit); return encoder_nest_impl<msgpack::msgpack_bytes_encoder, std::vector<uint8_t>, msgpack::msgpack_options>(ckind, depth, opt, false); }
    static const char* const* seed_hex() {
        static const char* const s[] = {
            "c0", "c2", "c3", "00", "7f", "ff", "e0", "cc80", "cdffff", "ceffffffff", "cfffffffffffffffff", "d080", "d18000", "d280000000", "d38000000000000000", "d37fffffffffffffff", "cf8000000000000000",
            "ca3fc00000", "ca7f800000", "cb3ff8000000000000", "cb7ff8000000000000", "a0", "a3616263", "bf" "61616161616161616161616161616161616161616161616161616161616161", "d903616263", "da0003616263", "db00000003616263", "a2c3a9", "a2c328", "a1ff",
            "c403010203", "c50003010203", "c600000003010203", "c400", "90", "93010203", "dc0003010203", "dd00000003010203", "80", "81a16101", "de0001a16101", "df00000001a16101", "8101 02", "81c0 02", "819101 02",
            "d40105", "d5010506", "d60105060708", "d7010506070805060708", "d801 05060708050607080506070805060708", "c7030101 0203", "c8000301010203", "c90000000301010203", "c70001",
            "d6ff5a4af600", "d7ff 0000000a 5a4af600", "d7ffffffffff00000000", "c70cff 3b9ac9ff 000000005a4af600", "c70cff 00000000 ffffffffffffffff", "d6ff00000000", "d5ff0000",
            "92 93010203 82a16101a1629100", "9191919191919191919191919191919191919191919101", "c1", "93c1", "81c1c1",
            "dbffffffff6161", "c6ffffffff01", "ddffffffff01", "dfffffffffa16101", "c9ffffffff0101", "db7fffffff", "dd7fffffff", "df7fffffff", "c67fffffff", "daffff6161", "dcffff01", "deffffa16101", "c5ffff01", "c8ffff0101",
            nullptr };
        return s;
    }
};
const FormatApi& msgpack_api() { return BinaryFmt<MsgpackB>::api(); }
}
