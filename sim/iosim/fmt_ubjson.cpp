#include "fmt_binary.hpp"
#include "../core/binseeds.hpp"
#include <jsoncons_ext/ubjson/ubjson.hpp>
using namespace jsoncons;
namespace iosim {
struct UbjsonT {
    using char_type = uint8_t;
    template <class S> using reader_t = ubjson::basic_ubjson_reader<S>;
    template <class S> using cursor_t = ubjson::basic_ubjson_cursor<S>;
    static ubjson::ubjson_options make_options(const MVal& o) { ubjson::ubjson_options opt; if (o.has("max_depth")) opt.max_nesting_depth((int)o.geti("max_depth")); if (o.has("max_items")) opt.max_items((std::size_t)o.getu("max_items")); return opt; }
    template <class C> static void cursor_check_done(C&, std::error_code&) {}
};
struct UbjsonB {
    using T = UbjsonT;
    static const char* name() { return "ubjson"; }
    template <class O> static ojson decode_view(const std::vector<uint8_t>& v, const O& o) { return ubjson::decode_ubjson<ojson>(v, o); }
    template <class It, class O> static ojson decode_iter(It a, It b, const O& o) { return ubjson::decode_ubjson<ojson>(a, b, o); }
    template <class O> static ojson decode_stream(std::istream& is, const O& o) { return ubjson::decode_ubjson<ojson>(is, o); }
    static void encode(const ojson& j, std::vector<uint8_t>& out, uint64_t) { ubjson::encode_ubjson(j, out); }
    static void encode_stream(const ojson& j, std::ostream& os, uint64_t) { ubjson::encode_ubjson(j, os); }
    static Outcome encoder_nest(int ckind, size_t depth, int limit) { auto opt = ubjson::ubjson_options{}.max_nesting_depth(limit); return encoder_nest_impl<ubjson::ubjson_bytes_encoder, std::vector<uint8_t>, ubjson::ubjson_options>(ckind, depth, opt, false); }
    static const char* const* seed_hex() { return sim::binseeds::ubjson(); }
};
const FormatApi& ubjson_api() { return BinaryFmt<UbjsonB>::api(); }
}
