#include "fmt_binary.hpp"
#include <jsoncons_ext/ubjson/ubjson.hpp>
using namespace jsoncons;
namespace iosim {
struct UbjsonT {
    using char_type = uint8_t;
    template <class S> using reader_t = ubjson::basic_ubjson_reader<S>;
    template <class S> using cursor_t = ubjson::basic_ubjson_cursor<S>;
    static ubjson::ubjson_options make_options(const MVal& o) { ubjson::ubjson_options opt; if (o.has("max_depth")) opt.max_nesting_depth((int)o.geti("max_depth")); if (o.has("max_items")) opt.max_items((std::size_t)o.getu("max_items")); return opt; }
    template <class C> static void cursor_check_done(C&, std::error_code&) {}
};
struct UbjsonB {
    using T = UbjsonT;
    static const char* name() { return "ubjson"; }
    template <class O> static ojson decode_view(const std::vector<uint8_t>& v, const O& o) { return ubjson::decode_ubjson<ojson>(v, o); }
    template <class It, class O> static ojson decode_iter(It a, It b, const O& o) { return ubjson::decode_ubjson<ojson>(a, b, o); }
    template <class O> static ojson decode_stream(std::istream& is, const O& o) { return ubjson::decode_ubjson<ojson>(is, o); }
    static void encode(const ojson& j, std::vector<uint8_t>& out, uint64_t) { ubjson::encode_ubjson(j, out); }
    static void encode_stream(const ojson& j, std::ostream& os, uint64_t) { ubjson::encode_ubjson(j, os); }
    static Outcome encoder_nest(int ckind, size_t depth, int limit) { auto opt = ubjson::ubjson_options{}.max_nesting_depth(limit); return encoder_nest_impl<ubjson::ubjson_bytes_encoder, std::vector<uint8_t>, ubjson::ubjson_options>(ckind, depth, opt, false); }
    static const char* const* seed_hex() {
        // Z T F N  i U I l L d D  C S H  [ ] { }  $ #
        static const char* const s[] = {
            "5a", "54", "46", "4e", "6980", "55ff", "498000", "6c80000000", "4c8000000000000000", "4c7fffffffffffffff", "643fc00000", "647f800000", "443ff8000000000000", "447ff8000000000000", "4361", "43ff",
            "53690361 6263", "535503616263", "5349000361 6263", "536c00000003616263", "534c0000000000000003616263", "536900", "5369 02c3a9", "536902c328", "5369ff61", "48690331 3233", "486904 312e3565", "486903 616263", "4869012d",
            "5b5d", "5b690169025d", "5b5b5b5d5d5d", "5b4e69014e5d", "7b7d", "7b690161 6901 7d", "7b6901615b5d690162 7b7d7d", "7b 6901 61 69 01", "5b6901", "7b690161", "5d", "7d", "5b7d", "7b5d",
            "5b23690369016902 6903", "5b236900", "5b2469236903 010203", "5b245523 6903 010203", "5b24492369020001 0002", "5b246c23690100000001", "5b244c2369010000000000000001", "5b24642369023fc0000040000000", "5b2444236901 3ff8000000000000", "5b24432369036162 63", "5b245423 6903", "5b245a23 6903", "5b244e236903",
            "5b2453236902 690161 690162", "5b245b236902 5d5d", "5b24 7b 2369027d7d", "5b2469", "5b246923", "5b24692369", "5b2369", "5b24 6923 6c ffffffff", "5b24 5a23 4c 7fffffffffffffff",
            "7b236902 690161 6901 690162 6902", "7b2469236902 690161 01 690162 02", "7b245a236902 690161 690162", "7b2453236901 690161 690162", "7b2369ff", "7b24692369ff",
            "5b234cffffffffffffffff", "5b236c7fffffff", "5b24 69 23 6c 7fffffff 01", "5b2444236c 7fffffff", "536c7fffffff6161", "534c7fffffffffffffff", "486c7fffffff31", "7b236c7fffffff", "7b24 69 23 6c 7fffffff", "5b24 55 23 4c 0000000100000000", "5b 23 6c 00989681", "5b 24 5a 23 6c 00989681",
            "5b5b5b5b5b5b5b5b5b5b5b5b5b5b5b5b5b5b5b5b5b5b5b5b", "7b690161 7b690161 7b690161 7b690161 7b7d7d7d7d7d", "5b 53 69 01 61 43 62 48 69 01 31 5d",
            nullptr };
        return s;
    }
};
const FormatApi& ubjson_api() { return BinaryFmt<UbjsonB>::api(); }
}
