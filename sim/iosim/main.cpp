// iosim engine: plan generation and execution for profiles c03, c05, c10.
#include "iosim.hpp"
#include "../core/gen.hpp"
#include <algorithm>
#include <functional>
#include <dirent.h>
#include <fstream>
#include <sstream>

#ifndef SIM_REPO_ROOT
#define SIM_REPO_ROOT "/repo"
#endif

using namespace sim;

namespace iosim {

static const FormatApi& api_of(const std::string& f) {
    if (f == "json") return json_api(); if (f == "csv") return csv_api(); if (f == "cbor") return cbor_api();
    if (f == "msgpack") return msgpack_api(); if (f == "ubjson") return ubjson_api(); if (f == "toon") return toon_api(); return bson_api();
}
static const char* const formats[] = {"json", "json", "csv", "cbor", "msgpack", "ubjson", "bson"};

struct Exec { std::string mode; Delivery d; };

// ---------------------------------------------------------------- inputs from the repository's own offline corpora
struct FileSeed { std::string name, bytes; };
static std::vector<std::string> list_dir(const std::string& dir) {
    std::vector<std::string> r;
    if (DIR* d = opendir(dir.c_str())) { while (dirent* e = readdir(d)) { std::string n = e->d_name; if (n != "." && n != "..") r.push_back(n); } closedir(d); }
    std::sort(r.begin(), r.end());
    return r;
}
static const std::vector<FileSeed>& file_seeds(const std::string& fmt) {
    static std::map<std::string, std::vector<FileSeed>> all;
    static bool loaded = false;
    if (!loaded) {
        loaded = true;
        const std::string root = std::string(SIM_REPO_ROOT) + "/test";
        auto add = [&](const std::string& f, const std::string& dir, const std::string& name) {
            std::ifstream in(dir + "/" + name, std::ios::binary); if (!in) return;
            std::stringstream ss; ss << in.rdbuf(); std::string b = ss.str();
            if (b.empty() || b.size() > 8192) return;
            all[f].push_back(FileSeed{name, b});
        };
        for (auto& n : list_dir(root + "/corelib/input/JSONTestSuite")) add("json", root + "/corelib/input/JSONTestSuite", n);
        for (auto& n : list_dir(root + "/corelib/input/JSON_checker")) add("json", root + "/corelib/input/JSON_checker", n);
        for (auto& n : list_dir(root + "/corelib/input")) if (n.size() > 5 && n.substr(n.size() - 5) == ".json") add("json", root + "/corelib/input", n);
        for (auto& n : list_dir(root + "/csv/input")) if (n.find(".csv") != std::string::npos || n.find(".txt") != std::string::npos) add("csv", root + "/csv/input", n);
        for (auto& n : list_dir(root + "/bson/input")) if (n.find(".bson") != std::string::npos) add("bson", root + "/bson/input", n);
        for (auto& n : list_dir(root + "/clusterfuzz/input")) {
            for (const char* f : {"json", "csv", "cbor", "msgpack", "ubjson", "bson"}) if (n.find(std::string("fuzz_") + f) != std::string::npos || (std::string(f) == "json" && n.find("fuzz_parse") != std::string::npos)) add(f, root + "/clusterfuzz/input", n);
        }
    }
    return all[fmt];
}

// ---------------------------------------------------------------- generation

static MVal gen_options(Rng& r, const std::string& fmt, const std::string& profile) {
    MVal o = MVal::obj();
    if (fmt == "json") {
        if (r.chance(1, 4)) o.set("comments", MVal::boolean(true));
        if (r.chance(1, 5)) o.set("trailing_comma", MVal::boolean(true));
        if (r.chance(1, 5)) o.set("lossless", MVal::boolean(true));
        if (r.chance(1, 5)) o.set("bignum", MVal::boolean(true));
        if (r.chance(1, 8)) o.set("max_depth", MVal::integer((int64_t)r.below(6)));
    } else if (fmt == "csv") {
        o.set("header", MVal::boolean(!r.chance(1, 4)));
        o.set("mapping", MVal::integer((int64_t)r.below(3)));
        if (r.chance(1, 4)) o.set("infer", MVal::boolean(false));
        if (r.chance(1, 4)) o.set("trim", MVal::boolean(true));
        if (r.chance(1, 5)) o.set("subfield", MVal::boolean(true));
        if (r.chance(1, 5)) o.set("comment", MVal::boolean(true));
        if (r.chance(1, 5)) o.set("null_empty", MVal::boolean(true));
        if (r.chance(1, 5)) o.set("keep_empty_lines", MVal::boolean(true));
        if (r.chance(1, 6)) o.set("lossless", MVal::boolean(true));
        // Only flat type lists are generated.  The repeat ('*') and array ('[..]') forms of column_types are known to be broken in the
        // pinned tree (F31, F32: container events lost by the cursor, unbalanced events with unquoted_empty_value_is_null); they are
        // exercised by two pinned plans (see pinned_plan) so that the findings stay visible, and not explored further because a new
        // violation there could not be told apart from the known ones.
        static const char* ctypes[] = {"integer,string,float,boolean", "boolean,float", "string,string,string,string,string,string", "boolean,integer,float,string", "float,float,float", "integer", "string,integer"};
        if (r.chance(1, 4)) o.set("column_types", MVal::str(r.pick(ctypes)));
        // assume_header + n_rows + column_names is broken from the first event (F34, pinned plan below), so it is not generated
        if (r.chance(1, 6) && !(o.getb("header", true) && o.geti("mapping", 0) == 1)) o.set("column_names", MVal::str(r.coin() ? "a,b,c" : "x, y"));
        if (r.chance(1, 6)) o.set("column_defaults", MVal::str(r.coin() ? "0,x,1.5" : ",,,1"));
        // header_lines > 1 is not generated: with blank or comment lines before the header the n_rows mapping emits an end_array
        // without begin_array (F37, pinned plan)
        if (r.chance(1, 6)) o.set("header_lines", MVal::uinteger(r.below(2)));
        if (r.chance(1, 8)) { static const char delims[] = {';', '|', '\t', ' '}; o.set("delim", MVal::uinteger((uint64_t)(unsigned char)r.pick(delims))); }
        // max_lines makes the parser stop without closing the open containers, which the repository's own test
        // (test_csv_parser_reinitialization) pins; every front end reports that stop differently, so it is generated for the c05
        // profile only (no crash, no foreign exception, no leak), not for the event comparison of c03
        if (profile == "c05" && r.chance(1, 8)) o.set("max_lines", MVal::uinteger(1 + r.below(4)));
        if (r.chance(1, 8)) o.set("ignore_empty_values", MVal::boolean(true));
        if (r.chance(1, 10)) o.set("quote_char", MVal::uinteger('\''));
        if (r.chance(1, 10)) o.set("trim_in_quotes", MVal::boolean(true));
    } else {
        if (r.chance(1, 8)) o.set("max_depth", MVal::integer((int64_t)r.below(6)));
        if (fmt == "ubjson" && r.chance(1, 6)) o.set("max_items", MVal::integer((int64_t)r.below(8)));
    }
    return o;
}

static MVal gen_faults(Rng& r, unsigned max_faults) {
    static const char* kinds[] = {"trunc", "flip", "flip", "set", "drop", "dup", "swap", "insert"};
    MVal a = MVal::arr();
    unsigned n = 1 + (unsigned)r.below(max_faults);
    for (unsigned i = 0; i < n; ++i) {
        MVal f = MVal::obj(); f.set("kind", MVal::str(r.pick(kinds)));
        f.set("a", MVal::integer((int64_t)r.below(1u << 20))); f.set("b", MVal::integer((int64_t)r.below(256)));
        a.push(f);
    }
    return a;
}

MVal generate(const std::string& profile, uint64_t seed, uint64_t idx) {
    Rng r(mix3(seed, fnv1a(profile) ^ 0x105, idx));
    MVal plan = MVal::obj();
    plan.set("engine", MVal::str("iosim")); plan.set("check", MVal::str(profile));
    plan.set("seed", MVal::uinteger(seed)); plan.set("idx", MVal::uinteger(idx));
    std::string fmt = formats[idx % (sizeof formats / sizeof formats[0])];
    if (profile == "c05" && idx % 8 == 7) fmt = "toon";
    if (const char* only = getenv("IOSIM_ONLY_FORMAT")) fmt = only;      // development aid: concentrate a run on one format (never set by run.py)      // C05 names TOON among the decoders (reader and decoder only: there is no TOON cursor)
    plan.set("format", MVal::str(fmt));
    const FormatApi& api = api_of(fmt);
    if (fmt == "csv" && (idx / (sizeof formats / sizeof formats[0])) % 64 == 6 && profile == "c03") {
        MVal o = MVal::obj();
        plan.set("input_hex", MVal::str(to_hex("a,b\n1,2\n"))); o.set("header", MVal::boolean(true)); o.set("mapping", MVal::integer(1)); o.set("column_names", MVal::str("x,y"));
        plan.set("src", MVal::str("pinned:csv-header-names-rows")); plan.set("options", o); plan.set("knob", MVal::uinteger(0));
        MVal dl = MVal::arr(); MVal sw = MVal::obj(); sw.set("kind", MVal::str("sweep")); dl.push(sw); plan.set("deliveries", dl);
        return plan;
    }
    if (fmt == "csv" && (idx / (sizeof formats / sizeof formats[0])) % 64 == 7 && profile == "c05") {
        MVal o = MVal::obj();
        plan.set("input_hex", MVal::str(to_hex("\r."))); o.set("header", MVal::boolean(true)); o.set("mapping", MVal::integer(1)); o.set("header_lines", MVal::uinteger(2));
        plan.set("src", MVal::str("pinned:csv-header-lines")); plan.set("options", o); plan.set("knob", MVal::uinteger(0));
        MVal dl = MVal::arr(); MVal sw = MVal::obj(); sw.set("kind", MVal::str("sweep")); dl.push(sw); plan.set("deliveries", dl);
        return plan;
    }
    if (fmt == "csv" && (idx / (sizeof formats / sizeof formats[0])) % 64 == 5 && profile != "c10") {
        // pinned reproductions of open findings in the CSV column_types repeat / array machinery (documented option values, clean input)
        MVal o = MVal::obj();
        if (profile == "c03") { plan.set("input_hex", MVal::str(to_hex("h\n6\n"))); o.set("header", MVal::boolean(true)); o.set("mapping", MVal::integer(1)); o.set("column_types", MVal::str("[integer,string]*")); }
        else { plan.set("input_hex", MVal::str(to_hex("a,,1\n"))); o.set("header", MVal::boolean(false)); o.set("mapping", MVal::integer(1)); o.set("null_empty", MVal::boolean(true)); o.set("column_types", MVal::str("string,[float]*")); }
        plan.set("src", MVal::str("pinned:csv-column-types")); plan.set("options", o); plan.set("knob", MVal::uinteger(0));
        MVal dl = MVal::arr(); MVal sw = MVal::obj(); sw.set("kind", MVal::str("sweep")); dl.push(sw); plan.set("deliveries", dl);
        return plan;
    }
    if (profile == "c10") {
        // claim-and-starve inputs and limit sweeps are enumerated by kind: see execute()
        uint64_t k = idx / 7;
        plan.set("kind", MVal::str(k % 3 == 0 ? "limits" : "claim"));
        plan.set("case", MVal::uinteger(k / 3));
        plan.set("tail", MVal::uinteger(r.below(65)));
        plan.set("exp", MVal::uinteger(24 + r.below(39)));
        return plan;
    }
    // input: hand-written seed, or generated document rendered in the format
    auto seeds = api.seeds();
    const auto& fs = file_seeds(fmt);
    unsigned src = (unsigned)r.below(20);
    if (src < 5 && !fs.empty()) { const FileSeed& f = fs[r.below(fs.size())]; plan.set("input_hex", MVal::str(to_hex(f.bytes))); plan.set("src", MVal::str(f.name)); }
    else if (src < 11) plan.set("seed_ix", MVal::uinteger(r.below(seeds.size())));
    else {
        GenOpts go; go.max_depth = 1 + (int)r.below(4); go.max_width = 1 + (int)r.below(5); go.big = r.chance(1, 10); go.root_container = !r.chance(1, 6);
        MVal gd = gen_value(r, go);
        if (!go.root_container && gd.k != MVal::Arr && gd.k != MVal::Obj && r.coin()) {       // top-level numbers: the only JSON texts whose prefixes can be complete
            static const double tops[] = {1.5, -0.25, 6.02e23, 1e-7, -1.0e300, 12.0, 2.5e-10, 1e21, -3.0e-5};
            gd = r.coin() ? MVal::dbl(r.pick(tops)) : MVal::integer(-(int64_t)r.below(100000));
        }
        plan.set("doc", gd);
        plan.set("variant", MVal::uinteger(r.next() >> 8));
    }
    plan.set("options", gen_options(r, fmt, profile));
    plan.set("knob", MVal::uinteger(r.below(12)));
    bool faulty = profile == "c05" ? true : r.chance(2, 5);     // c03 also compares corrupted / truncated inputs
    if (faulty) { plan.set("faults", gen_faults(r, profile == "c05" ? 4 : 2)); plan.set("packet", MVal::uinteger(1 + r.below(16))); }
    MVal dl = MVal::arr();
    MVal sw = MVal::obj(); sw.set("kind", MVal::str("sweep")); dl.push(sw);
    // seeded multi-way splits for the push parser
    for (int k = 0; k < 3; ++k) {
        Delivery d; d.kind = "push"; size_t n = 2 + (size_t)r.below(12);
        for (size_t i = 0; i < n; ++i) d.chunks.push_back(1 + (size_t)r.below(r.coin() ? 4 : 40));
        dl.push(d.to_m());
    }
    if (profile == "c05") { MVal f = MVal::obj(); f.set("kind", MVal::str("failsweep")); dl.push(f); MVal s = MVal::obj(); s.set("kind", MVal::str("sinksweep")); dl.push(s); }
    plan.set("deliveries", dl);
    return plan;
}

// ---------------------------------------------------------------- helpers

static std::string input_of(const MVal& plan, const FormatApi& api, uint64_t* fired) {
    std::string doc;
    if (plan.has("input_hex")) doc = from_hex(plan.gets("input_hex"));
    else if (plan.has("seed_ix")) { auto s = api.seeds(); doc = s[plan.getu("seed_ix") % s.size()]; }
    else if (plan.has("doc")) doc = api.encode(plan_text(plan, "doc"), plan.getu("variant"));
    std::vector<ChannelFault> faults;
    for (auto& f : plan.geta("faults")) { ChannelFault c; c.kind = f.gets("kind"); c.a = f.getu("a"); c.b = f.getu("b"); faults.push_back(c); }
    if (!faults.empty()) doc = apply_channel(doc, faults, plan.getu("packet", 8), fired);
    return doc;
}

static std::vector<std::string> modes_of(const MVal& plan, const FormatApi& api) {
    std::vector<std::string> m;
    if (plan.has("modes")) { for (auto& x : plan.geta("modes")) if (x.k == MVal::Str) m.push_back(x.s); return m; }
    m = {"reader", "decoder", "cursor", "readto", "filter", "filterref", "iter"};
    if (std::string(api.name) == "toon") m = {"reader", "decoder"};
    return m;
}

static void expand_sweep(size_t L, bool text, std::vector<Delivery>& out, std::vector<Delivery>& pushes) {
    auto add = [&](const char* kind, size_t chunk, size_t ga) { Delivery d; d.kind = kind; d.chunk = chunk ? chunk : 1; d.getarea = ga ? ga : 1; out.push_back(d); };
    size_t top = std::min<size_t>(64, L + 1);
    for (size_t k = 1; k <= top; ++k) add("stream", k, L + 1);
    for (size_t k : {L > 1 ? L - 1 : 1, L ? L : 1, L + 1, (size_t)255, (size_t)256, (size_t)257}) if (k > top && k <= L + 1) add("stream", k, L + 1);
    add("stream", 16384, L + 1);
    for (size_t g : {1, 2, 3, 7}) for (size_t k : {(size_t)1, (size_t)2, (size_t)3, (size_t)5, (size_t)8, (size_t)16, L + 1}) add("stream", k, g);
    for (size_t k : {(size_t)1, (size_t)2, (size_t)3, (size_t)4, (size_t)5, (size_t)7, (size_t)8, (size_t)16, L + 1, (size_t)16384}) add("iter", k, 0);
    for (size_t k : {(size_t)1, (size_t)3, L + 1}) add("list", k, 0);
    if (text) for (size_t k : {(size_t)1, (size_t)4, L + 1}) add("istreambuf", k, 5);
    if (text && L > 0) {
        size_t step = L > 512 ? (L + 511) / 512 : 1;
        for (size_t s = 1; s < L; s += step) { Delivery d; d.kind = "push"; d.chunks = {s}; pushes.push_back(d); }
        for (size_t k = 1; k <= std::min<size_t>(48, L); ++k) { Delivery d; d.kind = "push"; d.chunks.assign((L + k - 1) / k, k); pushes.push_back(d); }
    }
}

static bool bound_excluded(const std::string& fmt, const std::string& B) {
    // json_source_adaptor / text adaptors sniff the encoding from the first four bytes of the FIRST chunk:
    // the property's quantifier is BOM-less text, so such inputs are outside it (DESIGN.md 4.5).
    if (fmt != "json" && fmt != "csv" && fmt != "toon") return false;
    for (size_t i = 0; i < B.size() && i < 4; ++i) { unsigned char c = (unsigned char)B[i]; if (c == 0x00 || c == 0xEF || c == 0xFE || c == 0xFF || c == 0xBB || c == 0xBF) return true; }
    return false;
}

static std::string shorten(const std::string& s, size_t n = 300) {
    std::string r;
    for (unsigned char c : s) { if (r.size() >= n) { r += "..."; break; } if (c == '\n') r += "|"; else if (c < 0x20 || c >= 0x7f) { char b[8]; snprintf(b, sizeof b, "\\x%02x", c); r += b; } else r.push_back((char)c); }
    return r;
}

// narrow the plan to one explicit execution (used in violation reports so that shrinking works on concrete elements)
static void narrow(MVal& plan, const std::string& B, const std::string& mode, const Delivery& d) {
    plan.erase("doc"); plan.erase("variant"); plan.erase("seed_ix"); plan.erase("faults"); plan.erase("packet"); plan.erase("sub"); plan.erase("only_exec");
    plan.set("input_hex", MVal::str(to_hex(B)));
    MVal ms = MVal::arr(); ms.push(MVal::str(mode)); plan.set("modes", ms);
    MVal ds = MVal::arr(); ds.push(d.to_m()); plan.set("deliveries", ds);
}

// ---------------------------------------------------------------- C10 inputs

struct Nest { const char* fmt; const char* kind; std::function<std::string(size_t)> make; };
static std::string rep(const std::string& s, size_t n) { std::string r; r.reserve(s.size() * n); for (size_t i = 0; i < n; ++i) r += s; return r; }
static std::string le32(uint32_t v) { std::string s(4, 0); for (int i = 0; i < 4; ++i) s[i] = (char)(v >> (8 * i)); return s; }
static std::string bson_nest(size_t depth, bool array) {
    // depth = number of containers including the root document
    std::string inner = le32(5) + std::string(1, '\0');
    for (size_t i = 1; i < depth; ++i) { std::string el = std::string(1, array ? 4 : 3) + (array ? "0" : "a") + std::string(1, '\0') + inner; inner = le32((uint32_t)(4 + el.size() + 1)) + el + std::string(1, '\0'); }
    return inner;
}
static const std::vector<Nest>& nests() {
    static std::vector<Nest> v = {
        {"json", "array", [](size_t d) { return d ? rep("[", d) + rep("]", d) : std::string("1"); }},
        {"json", "object", [](size_t d) { return d ? rep("{\"a\":", d - 1) + "{}" + rep("}", d - 1) : std::string("1"); }},
        {"json", "mixed", [](size_t d) { std::string s, e; for (size_t i = 0; i < d; ++i) { bool last = i + 1 == d; if (i & 1) { if (last) s += "{}"; else { s += "{\"k\":"; e = "}" + e; } } else { if (last) s += "[]"; else { s += "["; e = "]" + e; } } } return s + (d ? "" : "0") + e; }},
        // siblings before every nested container: the depth counter must come down again when a container ends
        {"json", "array_siblings", [](size_t d) { if (!d) return std::string("1"); std::string s, e; for (size_t i = 0; i + 1 < d; ++i) { s += "[[],{},[],"; e += "]"; } return s + "[]" + e; }},
        {"json", "object_siblings", [](size_t d) { if (!d) return std::string("1"); std::string s, e; for (size_t i = 0; i + 1 < d; ++i) { s += "{\"a\":{},\"b\":[],\"c\":"; e += "}"; } return s + "{}" + e; }},
        {"cbor", "array_siblings", [](size_t d) { if (!d) return std::string("\x00", 1); std::string s; for (size_t i = 0; i + 1 < d; ++i) s += std::string("\x84\x80\xa0\x80", 4); return s + std::string("\x80", 1); }},
        {"cbor", "indef_siblings", [](size_t d) { if (!d) return std::string("\x00", 1); std::string s, e; for (size_t i = 0; i + 1 < d; ++i) { s += std::string("\x9f\x9f\xff\xbf\xff", 5); e += "\xff"; } return s + std::string("\x9f\xff", 2) + e; }},
        {"msgpack", "array_siblings", [](size_t d) { if (!d) return std::string("\x00", 1); std::string s; for (size_t i = 0; i + 1 < d; ++i) s += std::string("\x94\x90\x80\x90", 4); return s + std::string("\x90", 1); }},
        {"msgpack", "map_siblings", [](size_t d) { if (!d) return std::string("\x00", 1); std::string s; for (size_t i = 0; i + 1 < d; ++i) s += std::string("\x83\xa1\x61\x80\xa1\x62\x90\xa1\x63", 9); return s + std::string("\x80", 1); }},
        {"ubjson", "array_siblings", [](size_t d) { if (!d) return std::string("Z"); std::string s, e; for (size_t i = 0; i + 1 < d; ++i) { s += "[[]{}[]"; e += "]"; } return s + "[]" + e; }},
        // a typed array (RFC 8746) and the arrays a multi-dimensional array expands to are containers like any other
        {"cbor", "typed_array_leaf", [](size_t d) { if (!d) return std::string("\x00", 1); return rep("\x81", d - 1) + std::string("\xd8\x40\x41\x01", 4); }},
        {"cbor", "multi_dim", [](size_t d) { if (!d) return std::string("\x00", 1); std::string ext; if (d < 24) ext.push_back((char)(0x80 + d)); else if (d < 256) { ext.push_back((char)0x98); ext.push_back((char)d); } else if (d < 65536) { ext.push_back((char)0x99); ext.push_back((char)(d >> 8)); ext.push_back((char)d); } else { ext.push_back((char)0x9a); for (int sh = 24; sh >= 0; sh -= 8) ext.push_back((char)(d >> sh)); } ext += rep("\x01", d); return std::string("\xd8\x28\x82", 3) + ext + std::string("\x81\x07", 2); }},
        {"cbor", "array", [](size_t d) { return rep("\x81", d ? d - 1 : 0) + (d ? std::string("\x80", 1) : std::string("\x00", 1)); }},
        {"cbor", "indef_array", [](size_t d) { return rep("\x9f", d) + (d ? "" : std::string("\x00", 1)) + rep("\xff", d); }},
        {"cbor", "map", [](size_t d) { return rep("\xa1\x61\x61", d ? d - 1 : 0) + (d ? std::string("\xa0", 1) : std::string("\x00", 1)); }},
        {"cbor", "indef_map", [](size_t d) { std::string s; for (size_t i = 0; i + 1 < d; ++i) s += "\xbf\x61\x61"; if (d) s += "\xbf"; else s += std::string("\x00", 1); return s + rep("\xff", d); }},
        {"msgpack", "array", [](size_t d) { return rep("\x91", d ? d - 1 : 0) + (d ? std::string("\x90", 1) : std::string("\x00", 1)); }},
        {"msgpack", "map", [](size_t d) { return rep("\x81\xa1\x61", d ? d - 1 : 0) + (d ? std::string("\x80", 1) : std::string("\x00", 1)); }},
        {"ubjson", "array", [](size_t d) { return d ? rep("[", d) + rep("]", d) : std::string("Z"); }},
        {"ubjson", "object", [](size_t d) { return d ? rep(std::string("{i\x01" "a", 4), d - 1) + "{}" + rep("}", d - 1) : std::string("Z"); }},
        {"bson", "document", [](size_t d) { return bson_nest(d ? d : 1, false); }},
        {"bson", "array", [](size_t d) { return bson_nest(d ? d : 1, true); }},
    };
    return v;
}
struct Claim { const char* fmt; const char* kind; std::function<std::string(uint64_t)> head; };
static std::string be(uint64_t v, int n) { std::string s((size_t)n, 0); for (int i = 0; i < n; ++i) s[(size_t)i] = (char)(v >> (8 * (n - 1 - i))); return s; }
static const std::vector<Claim>& claims() {
    static std::vector<Claim> v = {
        {"cbor", "array", [](uint64_t n) { return "\x9b" + be(n, 8); }}, {"cbor", "map", [](uint64_t n) { return "\xbb" + be(n, 8); }},
        {"cbor", "text", [](uint64_t n) { return "\x7b" + be(n, 8); }}, {"cbor", "bytes", [](uint64_t n) { return "\x5b" + be(n, 8); }},
        {"cbor", "array32", [](uint64_t n) { return "\x9a" + be(n & 0xffffffff, 4); }}, {"cbor", "text32", [](uint64_t n) { return "\x7a" + be(n & 0xffffffff, 4); }},
        {"cbor", "typed_u8", [](uint64_t n) { return std::string("\xd8\x40\x5b", 3) + be(n, 8); }}, {"cbor", "typed_f64", [](uint64_t n) { return std::string("\xd8\x56\x5b", 3) + be(n, 8); }},
        {"cbor", "typed_u16", [](uint64_t n) { return std::string("\xd8\x41\x5a", 3) + be(n & 0xffffffff, 4); }},
        {"cbor", "indef_text_chunk", [](uint64_t n) { return std::string("\x7f\x7b", 2) + be(n, 8); }}, {"cbor", "bignum", [](uint64_t n) { return std::string("\xc2\x5b", 2) + be(n, 8); }},
        {"cbor", "multidim", [](uint64_t n) { return std::string("\xd8\x28\x82\x82\x02\x03\x9b", 7) + be(n, 8); }},
        {"cbor", "stringref_ns", [](uint64_t n) { return std::string("\xd9\x01\x00\x9b", 4) + be(n, 8); }},
        {"msgpack", "str32", [](uint64_t n) { return "\xdb" + be(n & 0xffffffff, 4); }}, {"msgpack", "bin32", [](uint64_t n) { return "\xc6" + be(n & 0xffffffff, 4); }},
        {"msgpack", "array32", [](uint64_t n) { return "\xdd" + be(n & 0xffffffff, 4); }}, {"msgpack", "map32", [](uint64_t n) { return "\xdf" + be(n & 0xffffffff, 4); }},
        {"msgpack", "ext32", [](uint64_t n) { return "\xc9" + be(n & 0xffffffff, 4) + "\x01"; }}, {"msgpack", "array16", [](uint64_t) { return std::string("\xdc\xff\xff", 3); }},
        {"ubjson", "string", [](uint64_t n) { return "SL" + be(n & 0x7fffffffffffffffULL, 8); }}, {"ubjson", "hpn", [](uint64_t n) { return "HL" + be(n & 0x7fffffffffffffffULL, 8); }},
        {"ubjson", "count", [](uint64_t n) { return "[#L" + be(n & 0x7fffffffffffffffULL, 8); }}, {"ubjson", "typed", [](uint64_t n) { return "[$i#L" + be(n & 0x7fffffffffffffffULL, 8); }},
        {"ubjson", "typed_null", [](uint64_t n) { return "[$Z#L" + be(n & 0x7fffffffffffffffULL, 8); }}, {"ubjson", "obj_count", [](uint64_t n) { return "{#L" + be(n & 0x7fffffffffffffffULL, 8); }},
        {"ubjson", "typed_double", [](uint64_t n) { return "[$D#l" + be(n & 0x7fffffff, 4); }}, {"ubjson", "count32", [](uint64_t n) { return "[#l" + be(n & 0x7fffffff, 4); }},
        {"bson", "document", [](uint64_t n) { return le32((uint32_t)(n & 0x7fffffff)); }}, {"bson", "string", [](uint64_t n) { return le32(64) + "\x02" + "a" + std::string(1, '\0') + le32((uint32_t)(n & 0x7fffffff)); }},
        {"bson", "binary", [](uint64_t n) { return le32(64) + "\x05" + "a" + std::string(1, '\0') + le32((uint32_t)(n & 0x7fffffff)) + std::string(1, '\0'); }},
        {"bson", "subdoc", [](uint64_t n) { return le32(64) + "\x03" + "a" + std::string(1, '\0') + le32((uint32_t)(n & 0x7fffffff)); }},
        {"bson", "js", [](uint64_t n) { return le32(64) + "\x0d" + "a" + std::string(1, '\0') + le32((uint32_t)(n & 0x7fffffff)); }},
        {"json", "deep_string", [](uint64_t) { return std::string("[\"") ; }},
    };
    return v;
}

// ---------------------------------------------------------------- execution

struct Run {
    MVal& plan; Stats& st; Result res; const FormatApi& api; std::string fmt, check; std::string B; MVal opts; Ctx cx;
    uint64_t exec_no = 0, only_exec = 0; uint64_t h = 1469598103934665603ULL;
    uint64_t produced_hint = 0;   // events the reader reports for this input (also before an error): the data actually produced
    bool expect_error = false;    // the input is a strict prefix of a valid self-delimiting document: decoding must fail
    Run(MVal& p, Stats& s) : plan(p), st(s), api(api_of(p.gets("format"))), fmt(p.gets("format")), check(p.gets("check", "c03")) {}

    bool want() { ++exec_no; if (only_exec && exec_no != only_exec) return false; progress(exec_no); return true; }
    void fail(const std::string& cls, const std::string& detail, const std::string& mode, const Delivery& d) {
        if (!res.ok) return;
        bool keep_expect = expect_error;
        // outcome equality across deliveries / modes is C03's oracle; the c05 profile only counts such observations
        if (check == "c05" && (cls.compare(0, 9, "delivery-") == 0 || cls.compare(0, 10, "crossmode-") == 0)) { st.inc("c03_class_observations." + cls.substr(0, cls.find('.'))); return; }
        res.fail(check + "." + cls + "." + fmt + "." + mode, detail + " [input " + std::to_string(B.size()) + " bytes: " + shorten(B, 120) + "] delivery " + d.label());
        narrow(plan, B, mode, d);
        if (keep_expect) plan.set("expect", MVal::str("error")); else plan.erase("expect");
    }
    // one library execution with leak accounting; Outcome strings are harness-owned and excluded
    Outcome exec(const std::string& mode, const Delivery& d) {
        if (only_exec) { MVal pub = plan; narrow(pub, B, mode, d); publish_plan(pub); }
        uint64_t blocks0 = ledger::live_blocks(), bytes0 = ledger::live_bytes();
        Outcome o = mode == "push" ? api.push(d, cx) : (mode.compare(0, 6, "entry.") == 0 ? api.entry(mode.substr(6), d, cx) : api.run(mode, d, cx));
        // the Outcome's own strings are the only harness allocations that may be live here
        uint64_t own = 0, ownb = 0;
        for (const std::string* s : {&o.events, &o.error, &o.violation, &o.vdetail}) if (s->capacity() > 15) { ++own; ownb += s->capacity() + 1; }
        uint64_t blocks1 = ledger::live_blocks(), bytes1 = ledger::live_bytes();
        if (blocks1 != blocks0 + own && o.violation.empty()) { o.violation = "leak"; o.vdetail = std::to_string((long long)blocks1 - (long long)blocks0 - (long long)own) + " block(s) / " + std::to_string((long long)bytes1 - (long long)bytes0 - (long long)ownb) + " bytes still allocated after the decoder was destroyed"; }
        if (o.produced < produced_hint) o.produced = produced_hint;
        if (o.violation.empty() && o.meter_live > Meter::allowed(o.meter_at, d.chunk, o.produced)) {
            o.violation = "memory-exceeds-delivery";
            o.vdetail = "live bytes " + std::to_string(o.meter_live) + " after only " + std::to_string(o.meter_at) + " bytes delivered (chunk " + std::to_string(d.chunk) + ", " + std::to_string(o.produced) + " items produced in total): allowed 256KiB + 1024*(delivered+chunk) + 256*items";
        }
        if (expect_error && o.violation.empty() && o.error.empty() && !o.events.empty()) {
            o.violation = "truncated-input-accepted";
            o.vdetail = "a strict prefix of a valid document decodes without error: " + shorten(o.events, 200);
        }
        st.inc("executions"); st.inc("exec." + mode);
        st.inc("io_events", o.reads);
        h = fnv1a(o.key(), h);
        return o;
    }
    // C05-class observations (foreign exception, liveness, leak, memory).  Under check c03 they are only counted:
    // if such an outcome depends on the delivery it already shows up as an outcome mismatch, and if it does not
    // it is not a statement about delivery (it is judged by the c05 / c10 profiles).
    void c05_flags(const Outcome& o, const std::string& mode, const Delivery& d) {
        if (o.violation.empty()) return;
        if (check == "c03") { st.inc("c05_class_observations." + o.violation.substr(0, o.violation.find('.'))); return; }
        fail(o.violation, o.vdetail, mode, d);
    }
};

static void classify_boundary(Stats& st, const std::string& fmt, const std::string& B, size_t pos) {
    // reach probe: what was under the split point (coarse, harness-side lexer)
    if (pos == 0 || pos >= B.size()) return;
    unsigned char a = (unsigned char)B[pos - 1], b = (unsigned char)B[pos];
    const char* cls = "other";
    if (fmt == "json" || fmt == "csv") {
        if (a == '\\') cls = "after_backslash";
        else if (a == '\r') cls = "after_cr";
        else if ((a & 0x80) && (b & 0xC0) == 0x80) cls = "inside_utf8";
        else if (isdigit(a) && isdigit(b)) cls = "inside_digits";
        else if (a == '0' && isdigit(b)) cls = "after_leading_zero";
        else if (a == '-') cls = "after_minus";
        else if (a == '.') cls = "after_point";
        else if (a == 'e' || a == 'E') cls = "after_exp";
        else if (isalpha(a) && isalpha(b)) cls = "inside_word";
        else if (a == '"') cls = "after_quote";
        else if (isspace(a) || isspace(b)) cls = "whitespace";
        else if (a == '/' || a == '*') cls = "comment_edge";
        else if (a == ',' || a == ':' || a == '[' || a == '{') cls = "after_punct";
        if (pos >= 2 && B[pos - 2] == '\\' && a == 'u') cls = "after_backslash_u";
        if (pos >= 6 && B[pos - 6] == '\\' && B[pos - 5] == 'u' && b == '\\') cls = "between_surrogates";
    } else cls = "binary";
    st.inc(std::string("boundary.") + fmt + "." + cls);
}

static Result exec_c03_c05(MVal& plan, Stats& st) {
    Run R(plan, st);
    uint64_t fired = 0;
    R.only_exec = plan.getu("only_exec", plan.getu("sub"));
    try { R.B = input_of(plan, R.api, &fired); }
    catch (const std::exception& e) { R.res.cls = "invalid-plan"; R.res.detail = e.what(); return R.res; }
    if (R.B.size() > (1u << 17)) { R.res.cls = "invalid-plan"; return R.res; }
    R.opts = plan.has("options") ? *plan.find("options") : MVal::obj();
    R.expect_error = plan.gets("expect") == "error";
    R.cx.B = &R.B; R.cx.opts = &R.opts; R.cx.knob = plan.getu("knob"); R.cx.st = &st; R.cx.meter = true;
    if (bound_excluded(R.fmt, R.B)) { st.inc("inputs_outside_bom_bound"); R.res.cls = "excluded"; return R.res; }
    st.inc("plans"); st.inc("plans." + R.fmt); st.inc("faults.channel_fired", fired); st.inc("input_bytes", R.B.size());
    const bool c05 = R.check == "c05";
    const std::string& B = R.B; size_t L = B.size();
    auto modes = modes_of(plan, R.api);
    bool explicit_modes = plan.has("modes");
    auto has_mode = [&](const char* m) { return !explicit_modes || std::find(modes.begin(), modes.end(), m) != modes.end(); };

    // deliveries
    std::vector<Delivery> dels, pushes; bool failsweep = false, sinksweep = false;
    for (auto& dm : plan.geta("deliveries")) {
        std::string k = dm.gets("kind");
        if (k == "sweep") expand_sweep(L, R.api.text, dels, pushes);
        else if (k == "failsweep") failsweep = true;
        else if (k == "sinksweep") sinksweep = true;
        else { Delivery d = Delivery::from_m(dm); if (d.kind == "push") pushes.push_back(d); else dels.push_back(d); }
    }
    Delivery contig; contig.kind = "contig";

    // ---- reference outcomes (contiguous delivery), each computed twice: the harness itself must be deterministic
    std::map<std::string, Outcome> ref;
    { // Inputs that expand enormously (UBJSON zero-width typed containers: "[$Z#l<14 million>" is 9 bytes and 14 million nulls,
      // legitimately, up to max_items per container and without any total bound) are data actually produced, not a claim;
      // they would make every execution take seconds and gigabytes, so the probe stops after 20 000 events and such plans
      // are skipped and counted.
      Ctx pc = R.cx; pc.cap = 20000;
      Outcome probe = R.api.run("reader", contig, pc); R.produced_hint = probe.produced;
      if (probe.produced > 20000) { st.inc("plans_skipped_amplifying_input"); R.res.cls = "excluded"; return R.res; }
      if (probe.produced > 4000) { st.inc("plans_amplifying_inputs_reference_only"); dels.clear(); pushes.clear(); failsweep = false; } }
    for (auto& m : modes) {
        if (m == "push" || m.compare(0, 6, "entry.") == 0) continue;
        if (!R.want()) { // still need the reference for comparison when only one execution is replayed
            ref[m] = R.api.run(m, contig, R.cx); continue;
        }
        Outcome a = R.exec(m, contig);
        Outcome b = R.api.run(m, contig, R.cx);
        // the harness is deterministic (run.py determinism): two decodes of the same bytes that differ mean the decoder read
        // memory it never wrote (e.g. a truncated scalar decoded from stale buffer contents)
        if (a.key() != b.key()) { R.fail("nondeterministic-outcome", "decoding the same bytes twice gives different outcomes (uninitialised data used): " + shorten(a.events, 150) + " / " + a.error + " vs " + shorten(b.events, 150) + " / " + b.error, m, contig); return R.res; }
        R.c05_flags(a, m, contig);
        if (a.peak > Meter::allowed(L, 1, a.produced) && R.res.ok) R.fail("memory-exceeds-input", "peak " + std::to_string(a.peak) + " bytes for " + std::to_string(L) + " input bytes and " + std::to_string(a.produced) + " items produced (contiguous)", m, contig);

        ref[m] = std::move(a);
        if (!R.res.ok) return R.res;
    }
    // ---- cross-mode event equality on the reference delivery
    auto cross = [&](const char* m1, const char* m2, const Delivery& d, const Outcome& a, const Outcome& b) {
        if (!R.res.ok) return;
        // binary maps with non-string keys: the cursor reports an `id` event, the reader's json adaptor a stringified key
        if (a.idkeys || b.idkeys) { st.inc("crossmode_skipped_nonstring_keys"); return; }
        bool sa = a.error.empty(), sb = b.error.empty();
        if (sa && sb) { if (a.events != b.events) R.fail(std::string("crossmode-events.") + m1, std::string(m1) + " and " + m2 + " report different events for the same input: " + shorten(a.events) + " vs " + shorten(b.events), m2, d); }
        else if (sa != sb) {
            // the cursor constructors turn an unexpected_eof before the first event into done(): not a difference in events
            const Outcome& failed = sa ? b : a; const Outcome& okone = sa ? a : b;
            if (!(failed.events.empty() && okone.events.empty())) R.fail(std::string("crossmode-status.") + m1, std::string(m1) + (sa ? " succeeds" : " fails (" + a.error + ")") + " but " + m2 + (sb ? " succeeds" : " fails (" + b.error + ")") + "; events " + shorten(a.events, 120) + " vs " + shorten(b.events, 120), m2, d);
        }
        st.inc("crossmode_comparisons");
        if (!R.res.ok) { MVal ms = MVal::arr(); ms.push(MVal::str(m1)); ms.push(MVal::str(m2)); plan.set("modes", ms); }    // a replay needs both sides
    };
    // CBOR multi-dimensional arrays (tags 40 / 1040) are surfaced nested by the reader and flat (with is_multi_dim())
    // by the cursor; the repository's own tests pin that difference, so such inputs are left out of the
    // reader-vs-cursor comparison (not out of the per-mode delivery comparison) and counted.
    bool multidim = R.fmt == "cbor" && (B.find("\xd8\x28") != std::string::npos || B.find(std::string("\xd9\x04\x11", 3)) != std::string::npos);
    if (multidim) st.inc("crossmode_skipped_cbor_multidim");
    if (!R.only_exec) {
        if (!multidim && ref.count("reader") && ref.count("cursor")) cross("reader", "cursor", contig, ref["reader"], ref["cursor"]);
        if (!multidim && ref.count("reader") && ref.count("readto")) cross("reader", "readto", contig, ref["reader"], ref["readto"]);
        if (ref.count("filter") && ref.count("filterref")) cross("filterref", "filter", contig, ref["filterref"], ref["filter"]);
        if (!R.res.ok) return R.res;
    }

    // ---- stream failure oracle: the result is a reported failure, the full value, or (premature EOF) the value of the delivered prefix
    auto failure_exec = [&](const std::string& m, const Delivery& d) {
        Outcome o = R.exec(m, d);
        R.c05_flags(o, m, d);
        st.inc(std::string("faults.stream_failure_kind") + std::to_string(d.fail_kind) + (o.stream_failed ? "_fired" : "_not_reached"));
        if (R.res.ok && o.error.empty() && ref.count(m)) {
            // Bytes handed over inside the read call that failed are un-acknowledged and may be lost (stream_source
            // discards a partial sgetn when the streambuf throws), so any prefix up to the failure point is a
            // legitimate "what arrived"; a value that no prefix decodes to is wrong data.
            bool explained = o.key() == ref[m].key();
            size_t top = std::min(d.fail_after, L);
            for (size_t p = top + 1; !explained && p-- > 0;) {
                if (top - p > d.chunk + d.getarea + 8) break;
                std::string prefix = B.substr(0, p);
                Ctx cp = R.cx; cp.B = &prefix;
                Outcome pr = R.api.run(m, Delivery(), cp);
                if (pr.error.empty() && o.events == pr.events) explained = true;
            }
            if (!explained)
                R.fail("stream-failure-wrong-value", "stream failed after " + std::to_string(d.fail_after) + " bytes (kind " + std::to_string(d.fail_kind) + ") yet decoding succeeded with a value that is neither the full input's nor that of any prefix that can have arrived: " + shorten(o.events) + " (full input: " + (ref[m].error.empty() ? shorten(ref[m].events, 150) : ref[m].error) + ")", m, d);
        }
        if (o.stream_failed) st.nontrivial(mix3(fnv1a(R.fmt + m + "fail"), d.fail_after * 8 + (uint64_t)d.fail_kind, fnv1a(B)));
    };
    // ---- every delivery x mode against the contiguous outcome of the same mode
    for (auto& d : dels) {
        for (auto& m : modes) {
            if (m == "push" || m.compare(0, 6, "entry.") == 0 || m == "filterref") continue;
            if (d.kind == "list" && (m == "filter" || m == "iter")) continue;
            if (!R.want()) continue;
            if (d.fail_kind) { failure_exec(m, d); if (!R.res.ok) return R.res; continue; }
            Outcome o = R.exec(m, d);
            R.c05_flags(o, m, d);
            const Outcome& r0 = ref[m];
            if (R.res.ok && o.key() != r0.key()) {
                std::string what = o.error != r0.error ? "outcome " + (o.error.empty() ? std::string("success") : "error " + o.error) + " vs contiguous " + (r0.error.empty() ? std::string("success") : "error " + r0.error)
                                                       : "events differ: " + shorten(o.events) + " vs contiguous " + shorten(r0.events);
                R.fail(o.error != r0.error ? "delivery-error" : "delivery-events", what, m, d);
            }
            if (d.kind == "stream" && d.chunk <= 64) st.nontrivial(mix3(fnv1a(R.fmt + m), d.chunk * 131 + d.getarea, fnv1a(B)));
            if (d.kind == "stream" && d.chunk < L) for (size_t p = d.chunk; p < L && p <= 4 * d.chunk; p += d.chunk) classify_boundary(st, R.fmt, B, p);
            if (!R.res.ok) return R.res;
        }
    }
    // ---- push parser: every split against the single-chunk push, and push events against the reader's
    if (R.api.text && has_mode("push") && (!explicit_modes || !pushes.empty())) {
        Delivery whole; whole.kind = "push";
        Outcome pref = R.api.push(whole, R.cx);
        if (!R.only_exec && ref.count("reader")) cross("reader", "push", whole, ref["reader"], pref);
        if (!R.res.ok) return R.res;
        for (auto& d : pushes) {
            if (!R.want()) continue;
            Outcome o = R.exec("push", d);
            R.c05_flags(o, "push", d);
            if (R.res.ok && o.key() != pref.key()) R.fail(o.error != pref.error ? "delivery-error" : "delivery-events",
                (o.error != pref.error ? "outcome " + (o.error.empty() ? std::string("success") : "error " + o.error) + " vs single chunk " + (pref.error.empty() ? std::string("success") : "error " + pref.error)
                                       : "events differ: " + shorten(o.events) + " vs single chunk " + shorten(pref.events)), "push", d);
            if (d.chunks.size() == 1) { classify_boundary(st, R.fmt, B, d.chunks[0]); st.nontrivial(mix3(fnv1a(R.fmt + "push"), d.chunks[0], fnv1a(B))); }
            if (!R.res.ok) return R.res;
        }
    }
    // ---- convenience entry points (the library builds its own source): view vs iterators vs stream
    bool any_entry = false; for (auto& m : modes) if (m.compare(0, 6, "entry.") == 0) any_entry = true;
    if (any_entry || !explicit_modes) {
        Delivery dv; dv.kind = "contig";
        Outcome ev = R.api.entry("view", dv, R.cx);
        for (const char* w : {"iter", "stream"}) {
            for (size_t g : {(size_t)1, (size_t)3, L + 1}) {
                if (std::string(w) == "iter" && g != 1) continue;
                Delivery d; d.kind = "contig"; d.getarea = g;
                std::string mode = std::string("entry.") + w;
                if (explicit_modes && !has_mode(mode.c_str())) continue;
                if (!R.want()) continue;
                Outcome o = R.exec(mode, d);
                R.c05_flags(o, mode, d);
                if (R.res.ok && o.key() != ev.key()) R.fail("delivery-entry", "entry point over " + std::string(w) + " gives " + (o.error.empty() ? shorten(o.events) : o.error) + " but over a contiguous view " + (ev.error.empty() ? shorten(ev.events) : ev.error), mode, d);
                if (!R.res.ok) return R.res;
            }
        }
    }
    // typed decoding (replay of a narrowed truncation case; the sweep itself is further down)
    if (explicit_modes && has_mode("entry.typed") && R.fmt == "json" && R.want()) {
        Outcome o = R.exec("entry.typed", contig);
        R.c05_flags(o, "entry.typed", contig);
        if (!R.res.ok) return R.res;
    }
    // ---- C05: stream failure at every offset; the result is the outcome of the delivered prefix, or a reported failure
    if (c05 && failsweep) {
        size_t step = L > 48 ? (L + 47) / 48 : 1;
        for (size_t f = 0; f <= L; f += step) {
            for (int kind = 1; kind <= 3; ++kind) {
                for (size_t k : {(size_t)1, (size_t)7, (size_t)16384}) {
                    Delivery d; d.kind = "stream"; d.chunk = k; d.getarea = 5; d.fail_after = f; d.fail_kind = kind;
                    for (const char* m : {"reader", "cursor", "decoder"}) {
                        if (!R.want()) continue;
                        failure_exec(m, d);
                        if (!R.res.ok) return R.res;
                    }
                }
            }
        }
    }
    // ---- C05: encoders writing into a sink that fails after k bytes
    // a sink execution is replayed from the document, not from the input bytes: keep "doc" and name the execution
    auto sink_narrow = [](MVal& p, int big, size_t cap, int kind) {
        for (const char* k : {"seed_ix", "faults", "packet", "sub", "only_exec", "input_hex", "expect"}) p.erase(k);
        p.set("modes", MVal::arr());
        MVal ds = MVal::arr(); MVal s = MVal::obj(); s.set("kind", MVal::str("sinksweep")); ds.push(s); p.set("deliveries", ds);
        MVal so = MVal::obj(); so.set("big", MVal::uinteger((uint64_t)big)); so.set("cap", MVal::uinteger(cap)); so.set("kind", MVal::uinteger((uint64_t)kind)); p.set("sink_only", so);
    };
    const MVal sink_plan0 = plan;
    const MVal* sink_only = sink_plan0.find("sink_only");
    for (int big = 0; big < 2; ++big) if (c05 && sinksweep && plan.has("doc") && R.res.ok) {
        if (sink_only && (int)sink_only->getu("big") != big) continue;
        std::string text = plan_text(plan, "doc");
        if (big) {
            // output larger than the encoders' internal 16 KiB stream buffer: the failure then happens while the
            // encoder is still producing, and it keeps writing into a stream that has already failed
            if ((plan.getu("idx") % 3 != 0 && !sink_only) || text.empty()) break;
            size_t n = std::min<size_t>(6000, 49152 / text.size() + 2);
            std::string rep = "["; for (size_t i = 0; i < n; ++i) { if (i) rep.push_back(','); rep += text; } rep.push_back(']');
            text.swap(rep); st.inc("sink.big_documents");
        }
        Outcome full = R.api.encode_to_sink(text, SIZE_MAX, 1, plan.getu("variant"));
        size_t total = (size_t)full.delivered, step = total > 40 ? (total + 39) / 40 : 1;
        Delivery dd; dd.kind = big ? "sink_big" : "sink";
        if (!full.violation.empty()) { R.fail(full.violation, full.vdetail, "sink", dd); if (!R.res.ok) { plan = sink_plan0; sink_narrow(plan, big, total ? total - 1 : 0, 1); } }
        std::vector<size_t> caps;
        if (!big) for (size_t cap = 0; cap < total; cap += step) caps.push_back(cap);
        else for (size_t cap : {(size_t)0, (size_t)1, (size_t)4095, (size_t)16383, (size_t)16384, (size_t)16385, (size_t)32768, total / 2, total - 1}) if (cap < total) caps.push_back(cap);
        if (sink_only) { caps.clear(); caps.push_back((size_t)sink_only->getu("cap")); }
        for (size_t cap : caps) { if (!R.res.ok) break;
            for (int kind = 1; kind <= 4; ++kind) {     // 1: short write, 2: streambuf throws, 3 and 4: the same with os.exceptions(badbit | failbit)
                if (sink_only && (int)sink_only->getu("kind") != kind) continue;
                if (!R.want()) continue;
                if (R.only_exec) { MVal pub = sink_plan0; sink_narrow(pub, big, cap, kind); publish_plan(pub); }
                uint64_t blocks0 = ledger::live_blocks();
                Outcome o = R.api.encode_to_sink(text, cap, kind, plan.getu("variant"));
                uint64_t blocks1 = ledger::live_blocks();       // before any harness bookkeeping allocates
                st.inc("executions"); st.inc("exec.sink"); st.inc("faults.sink_failure_fired", o.stream_failed); if (kind > 2 && (o.stream_failed || !o.violation.empty())) st.inc("faults.sink_failure_with_stream_exceptions");   // the exception leaves before stream_failed is recorded
                if (!o.violation.empty() && !((kind == 2 || kind == 4) && o.violation.find("runtime_error") != std::string::npos) && !(kind >= 3 && o.violation.find("ios_failure") != std::string::npos) && !(kind >= 3 && o.violation.find("ios_base7failure") != std::string::npos)) R.fail(o.violation, o.vdetail + " (sink capacity " + std::to_string(cap) + ")", "sink", dd);
                else if (o.error.empty() && o.stream_failed && o.events == "good") R.fail("sink-failure-unreported", "sink accepted only " + std::to_string(cap) + " of " + std::to_string(total) + " bytes but the stream still reports good()", "sink", dd);
                uint64_t own = 0; for (const std::string* s : {&o.events, &o.error, &o.violation, &o.vdetail}) if (s->capacity() > 15) ++own;
                if (R.res.ok && blocks1 != blocks0 + own) R.fail("leak", std::to_string((long long)blocks1 - (long long)blocks0 - (long long)own) + " block(s) still allocated after encoding into a failing sink", "sink", dd);
                if (!R.res.ok) { plan = sink_plan0; sink_narrow(plan, big, cap, kind); }     // R.fail narrowed to the input bytes; a sink run needs the document
                st.nontrivial(mix3(fnv1a(R.fmt + "sink"), cap * 8 + (uint64_t)kind, fnv1a(text)));
            }
        }
    }
    // ---- C05: every strict prefix of a VALID binary document must be refused (self-delimiting formats): a truncated
    //      input that decodes "successfully" was completed from bytes that never arrived
    // JSON text: a strict prefix of a valid document that stops before its last non-whitespace character is never a
    // complete JSON text, except that a prefix of a top-level NUMBER may itself be a complete number.
    auto complete_json_number = [](const std::string& t) {
        size_t i = 0, n = t.size();
        while (i < n && (t[i] == ' ' || t[i] == '\n' || t[i] == '\r' || t[i] == '\t')) ++i;
        if (i < n && t[i] == '-') ++i;
        if (i >= n) return false;
        if (t[i] == '0') ++i; else if (t[i] >= '1' && t[i] <= '9') { while (i < n && isdigit((unsigned char)t[i])) ++i; } else return false;
        if (i < n && t[i] == '.') { ++i; size_t d0 = i; while (i < n && isdigit((unsigned char)t[i])) ++i; if (i == d0) return false; }
        if (i < n && (t[i] == 'e' || t[i] == 'E')) { ++i; if (i < n && (t[i] == '+' || t[i] == '-')) ++i; size_t d0 = i; while (i < n && isdigit((unsigned char)t[i])) ++i; if (i == d0) return false; }
        return i == n;
    };
    bool json_doc = R.fmt == "json" && plan.has("doc");
    if (c05 && (!R.api.text || json_doc) && plan.has("doc") && ref.count("reader") && ref["reader"].error.empty()) {
        std::string valid = R.api.encode(plan_text(plan, "doc"), plan.getu("variant"));
        Ctx cv = R.cx; cv.B = &valid;
        Outcome whole = R.api.run("reader", contig, cv);
        size_t core_end = valid.size();
        bool top_number = false;
        if (json_doc) {
            while (core_end > 0 && (valid[core_end - 1] == ' ' || valid[core_end - 1] == '\n' || valid[core_end - 1] == '\r' || valid[core_end - 1] == '\t')) --core_end;
            const MVal* dm = plan.find("doc"); top_number = dm && (dm->k == MVal::Int || dm->k == MVal::UInt || dm->k == MVal::Dbl);
            if (valid.find('/') != std::string::npos && valid.find("/*") != std::string::npos) core_end = 0;   // rendered with comments: no claim
            if (valid.find("//") != std::string::npos) core_end = 0;
        }
        if (whole.error.empty() && core_end > 1) {
            size_t VL = core_end, step = VL > 96 ? (VL + 95) / 96 : 1;
            for (size_t t = 1; t < VL; t += step) {
                std::string prefix = valid.substr(0, t);
                if (json_doc && top_number && complete_json_number(prefix)) continue;
                std::string saveB = R.B; R.B = prefix; R.cx.B = &R.B; R.expect_error = true;
                for (int del = 0; del < 2 && R.res.ok; ++del) {
                    Delivery d; if (del == 1) { d.kind = "stream"; d.chunk = 3; d.getarea = 2; }
                    for (const char* m : {"reader", "cursor", "entry.typed"}) {
                        if (!strcmp(m, "entry.typed") && (!json_doc || del == 1)) continue;      // decode_json<std::map / std::vector>: JSON text, contiguous
                        if (!R.want()) continue;
                        Outcome o = R.exec(m, d);
                        R.c05_flags(o, m, d);
                        st.inc(json_doc ? "faults.truncation_of_valid_json_text" : "faults.truncation_of_valid_document");
                        if (json_doc && top_number) st.inc("reach.truncated_top_level_number");
                        st.nontrivial(mix3(fnv1a(R.fmt + m + "trunc"), t * 2 + (uint64_t)del, fnv1a(valid)));
                        if (!R.res.ok) return R.res;
                    }
                }
                R.B = saveB; R.cx.B = &R.B; R.expect_error = false;
            }
        }
    }
    // ---- C05: prefix consistency for the self-delimiting binary formats, for ANY input (seeds, corpus files, corrupted documents):
    //      a reader stops after the first complete item, so if a strict prefix P of the input B decodes successfully then P holds a
    //      complete item, B starts with the same item, and B must decode successfully to the same events.  A prefix that succeeds with
    //      other events (or while B fails) was completed from bytes that never arrived.
    if (c05 && !R.api.text && R.res.ok && L > 1 && ref.count("reader") && !ref["reader"].idkeys) {
        const Outcome& whole = ref["reader"];
        std::vector<size_t> cuts;
        size_t step = L > 72 ? (L + 63) / 64 : 1;
        for (size_t t = 1; t < L; t += step) cuts.push_back(t);
        for (size_t t = L > 8 ? L - 8 : 1; t < L; ++t) if (step > 1) cuts.push_back(t);
        if (plan.has("prefix_only")) { cuts.clear(); size_t t = (size_t)plan.getu("prefix_only"); if (t >= 1 && t < L) cuts.push_back(t); }
        std::string saveB = R.B;
        for (size_t t : cuts) {
            if (!R.res.ok) break;
            if (!R.want()) continue;
            std::string prefix = saveB.substr(0, t);
            R.B = prefix; R.cx.B = &R.B;
            Outcome o = R.exec("reader", contig);
            st.inc("faults.prefix_consistency_cut");
            if (!o.violation.empty()) R.c05_flags(o, "reader", contig);
            else if (o.error.empty() && !o.events.empty() && !o.idkeys && (!whole.error.empty() || o.events != whole.events)) {
                st.inc("reach.prefix_decoded_successfully");
                R.fail("prefix-decodes-differently", "the first " + std::to_string(t) + " of " + std::to_string(L) + " bytes decode successfully to " + shorten(o.events, 160) + " but the whole input " +
                       (whole.error.empty() ? "decodes to " + shorten(whole.events, 160) : "fails (" + whole.error + ")") + ": the item was completed from bytes that never arrived", "reader", contig);
            }
            else if (o.error.empty() && !o.events.empty()) st.inc("reach.prefix_is_complete_item");
            st.nontrivial(mix3(fnv1a(R.fmt + "prefixcons"), t, fnv1a(saveB)));
            if (!R.res.ok) {                  // R.fail narrowed the plan to the prefix; a replay needs the whole input and the cut
                plan.set("input_hex", MVal::str(to_hex(saveB))); plan.set("prefix_only", MVal::uinteger(t)); plan.set("deliveries", MVal::arr());
                return R.res;
            }
        }
        R.B = saveB; R.cx.B = &R.B;
    }
    R.res.hash = R.h;
    return R.res;
}

// ---------------------------------------------------------------- C10

struct C10Case { std::string B; MVal opts; int expect; std::string tag; uint64_t exp; };

static Result exec_c10(MVal& plan, Stats& st) {
    std::string kind = plan.gets("kind");
    std::vector<C10Case> cases;
    std::string fmt = plan.gets("format");
    if (plan.has("input_hex")) {
        C10Case c; c.B = from_hex(plan.gets("input_hex")); c.opts = plan.has("options") ? *plan.find("options") : MVal::obj();
        c.expect = (int)plan.geti("expect", -1); c.tag = plan.gets("tag"); c.exp = plan.getu("exp");
        cases.push_back(c);
    } else if (kind == "limits") {
        // every (format, container kind) x limit: depth limit-1 and limit decode, limit+1 is refused
        // "every nesting limit from 0 to tens of thousands": the large ones straddle the 16- and 17-bit boundaries
        static const int limits[] = {0, 1, 2, 3, 7, 64, 1024, 5000, 32766, 32767, 32768, 65535, 65536, 70000};
        auto& ns = nests();
        const Nest& n = ns[plan.getu("case") % ns.size()];
        fmt = n.fmt;
        // the large limits only with generators that build their input in linear time (plain repetition)
        std::string nk = n.kind;
        bool linear = nk == "array" || nk == "indef_array" || nk == "map" || (nk == "object" && fmt != "bson");
        if (fmt == "bson") linear = false;
        for (int lim : limits) for (int delta = -1; delta <= 1; ++delta) {
            long depth = (long)lim + delta; if (depth < 0) continue;
            if (lim > 5000 && !linear) continue;
            if (fmt == "bson" && depth == 0) continue;
            C10Case c; c.opts = MVal::obj(); c.opts.set("max_depth", MVal::integer(lim));
            c.B = n.make((size_t)depth); c.expect = delta > 0 ? 1 : 0;
            c.tag = fmt + "." + n.kind + ".limit" + std::to_string(lim) + (delta < 0 ? "-1" : delta == 0 ? "" : "+1"); c.exp = 0;
            cases.push_back(c);
        }
        if (fmt == "ubjson") {
            // UBJSON containers announcing (or holding) more than max_items are refused; exactly max_items is accepted
            for (int m : {0, 1, 2, 3, 7, 64, 300}) for (int delta = -1; delta <= 1; ++delta) {
                long nitems = (long)m + delta; if (nitems < 0) continue;
                std::string cnt = nitems < 128 ? std::string("i") + (char)nitems : std::string("I") + (char)(nitems >> 8) + (char)(nitems & 0xff);
                struct V { const char* name; std::string bytes; };
                std::vector<V> vs = {
                    {"counted_array", "[#" + cnt + rep("Z", (size_t)nitems)},
                    {"plain_array", "[" + rep("Z", (size_t)nitems) + "]"},
                    {"typed_array", "[$i#" + cnt + rep("\x05", (size_t)nitems)},
                    {"counted_object", "{#" + cnt + rep(std::string("i\x01" "aZ", 4), (size_t)nitems)},
                    {"plain_object", "{" + rep(std::string("i\x01" "aZ", 4), (size_t)nitems) + "}"},
                    {"typed_object", "{$i#" + cnt + rep(std::string("i\x01" "a\x07", 4), (size_t)nitems)},
                    {"counted_array_l", "[#l" + be((uint64_t)nitems, 4) + rep("Z", (size_t)nitems)},
                    {"typed_array_L", "[$U#L" + be((uint64_t)nitems, 8) + rep("\x05", (size_t)nitems)},
                    {"nested_counted", "[[#" + cnt + rep("Z", (size_t)nitems) + "]"},
                };
                for (auto& v : vs) {
                    if (m == 0 && std::string(v.name) == "nested_counted") continue;   // the outer array itself holds one item
                    C10Case c; c.opts = MVal::obj(); c.opts.set("max_items", MVal::integer(m));
                    c.B = v.bytes; c.expect = delta > 0 ? 1 : 0; c.exp = 0;
                    c.tag = std::string("ubjson.max_items.") + v.name + ".limit" + std::to_string(m) + (delta < 0 ? "-1" : delta == 0 ? "" : "+1");
                    cases.push_back(c);
                }
            }
        }
    } else if (kind == "enc_limit") {
        // replay of one encoder-limit case: handled below
    } else {
        // claim-and-starve: a head announcing 2^exp items/bytes followed by `tail` bytes, then end of file
        auto& cs = claims();
        const Claim& cl = cs[plan.getu("case") % cs.size()];
        fmt = cl.fmt;
        uint64_t exp = plan.getu("exp", 32); if (exp > 62) exp = 62; if (exp < 20) exp = 20;
        uint64_t n = (1ULL << exp) + (plan.getu("tail") & 3);
        C10Case c; c.B = cl.head(n); c.opts = MVal::obj(); c.expect = -1; c.tag = fmt + "." + cl.kind; c.exp = exp;
        Rng r(mix3(plan.getu("seed"), 0xC10, plan.getu("idx"))); size_t tail = (size_t)plan.getu("tail") % 65;
        for (size_t i = 0; i < tail; ++i) c.B.push_back((char)(r.chance(1, 2) ? r.below(256) : 'a'));
        cases.push_back(c);
    }
    plan.set("format", MVal::str(fmt));
    Run R(plan, st);
    R.only_exec = plan.getu("only_exec", plan.getu("sub"));
    R.cx.st = &st; R.cx.meter = true;
    st.inc("plans"); st.inc("plans." + fmt);
    std::vector<std::string> modes;
    if (plan.has("modes")) { for (auto& x : plan.geta("modes")) if (x.k == MVal::Str) modes.push_back(x.s); }
    else modes = {"reader", "cursor", "decoder", "iter"};
    std::vector<Delivery> dels;
    if (plan.has("deliveries")) { for (auto& dm : plan.geta("deliveries")) dels.push_back(Delivery::from_m(dm)); }
    else {
        dels.push_back(Delivery());
        Delivery d; d.kind = "stream"; d.chunk = 3; d.getarea = 2; dels.push_back(d);
        d.chunk = 16; d.getarea = 4; dels.push_back(d);
        d.chunk = 16384; d.getarea = 64; dels.push_back(d);
        Delivery it; it.kind = "iter"; it.chunk = 5; dels.push_back(it);
    }
    for (auto& c : cases) {
        R.B = c.B; R.cx.B = &R.B; R.opts = c.opts; R.cx.opts = &R.opts;
        { Ctx pc = R.cx; pc.cap = 200000; Outcome probe = R.api.run("reader", Delivery(), pc); R.produced_hint = probe.produced;
          if (probe.produced > 200000) { st.inc("cases_skipped_amplifying_input"); continue; } }
        for (auto& m : modes) for (auto& d : dels) {
            if (c.B.size() > 20000 && (m == "decoder" || m == "iter" || (d.kind != "contig" && d.chunk < 16))) continue;   // huge depths: reader and cursor, coarse deliveries
            if (!R.want()) continue;
            Outcome out = R.exec(m, d);
            R.c05_flags(out, m, d);
            bool ok = out.error.empty();
            if (R.res.ok && c.expect == 0 && !ok) R.fail("limit-rejects-within", c.tag + ": input within the limit is refused (" + out.error + ")", m, d);
            if (R.res.ok && c.expect == 1 && ok) R.fail("limit-accepts-beyond", c.tag + ": input beyond the limit is accepted", m, d);
            if (R.res.ok && out.peak > Meter::allowed(c.B.size(), d.kind == "contig" ? 0 : d.chunk, out.produced))
                R.fail("memory-follows-claim", c.tag + ": peak " + std::to_string(out.peak) + " bytes while decoding " + std::to_string(c.B.size()) + " supplied bytes" + (c.exp ? " that claim 2^" + std::to_string(c.exp) : std::string()), m, d);
            if (c.expect >= 0) st.inc("limit_checks"); else { st.inc("claim_checks"); st.inc("faults.claim_and_starve_fired"); }
            st.maxi("peak_bytes_over_input", out.peak);
            st.nontrivial(mix3(fnv1a(c.tag + m), c.exp * 16 + fnv1a(d.label()) % 16, plan.getu("tail")));
            if (!R.res.ok) {
                plan.set("check", MVal::str("c10")); plan.set("kind", MVal::str(kind)); plan.set("options", c.opts);
                plan.set("expect", MVal::integer(c.expect)); plan.set("tag", MVal::str(c.tag)); plan.set("exp", MVal::uinteger(c.exp));
                if (c.expect >= 0) plan.set("noshrink", MVal::boolean(true));   // the expectation belongs to this exact input: shrinking the bytes would change its depth
                return R.res;
            }
        }
    }
    // encoders enforce the same limit on what they are asked to write
    if (R.res.ok && (kind == "limits" || kind == "enc_limit") && R.api.encoder_nest) {
        static const int limits[] = {0, 1, 2, 3, 7, 64, 1024, 32767, 65536};
        struct EC { int ck; size_t depth; int lim; int expect; };
        std::vector<EC> ecs;
        if (kind == "enc_limit") ecs.push_back(EC{(int)plan.geti("ckind"), (size_t)plan.getu("depth"), (int)plan.geti("limit"), (int)plan.geti("expect")});
        else if (!plan.has("input_hex")) for (int ck = 0; ck < 5; ++ck) for (int lim : limits) for (int delta = -1; delta <= 1; ++delta) { long d = (long)lim + delta; if (d < 1) continue; ecs.push_back(EC{ck, (size_t)d, lim, delta > 0}); }
        for (auto& e : ecs) {
            if (!R.want()) continue;
            uint64_t blocks0 = ledger::live_blocks();
            Outcome out = R.api.encoder_nest(e.ck, e.depth, e.lim);
            uint64_t own = 0; for (const std::string* sp : {&out.events, &out.error, &out.violation, &out.vdetail}) if (sp->capacity() > 15) ++own;
            bool leaked = ledger::live_blocks() != blocks0 + own;
            st.inc("executions"); st.inc("exec.encoder_nest"); st.inc("limit_checks");
            std::string tag = fmt + ".encoder." + (e.ck == 0 ? "array" : e.ck == 1 ? "object" : e.ck == 2 ? "mixed" : e.ck == 3 ? "array_nolength" : "object_nolength") + ".limit" + std::to_string(e.lim) + " depth " + std::to_string(e.depth);
            bool ok = out.error.empty();
            std::string cls, msg;
            if (!out.violation.empty()) { cls = out.violation; msg = out.vdetail; }
            else if (!e.expect && !ok) {
                // an encoder may refuse the call for another reason (MessagePack needs definite lengths): then it also refuses it with no limit in the way
                Outcome unlimited = R.api.encoder_nest(e.ck, e.depth, 1000000);
                if (unlimited.error.empty()) { cls = "encoder-limit-rejects-within"; msg = tag + ": refused (" + out.error + ")"; }
                else st.inc("encoder_variant_unsupported");
            }
            else if (e.expect && ok) { cls = "encoder-limit-accepts-beyond"; msg = tag + ": written without error"; }
            if (cls.empty() && leaked) { cls = "leak"; msg = tag + ": blocks still allocated after the encoder was destroyed"; }
            st.nontrivial(mix3(fnv1a(tag), (uint64_t)e.lim, e.depth));
            if (!cls.empty()) {
                R.res.fail("c10." + cls + "." + fmt + ".encoder", msg);
                plan.erase("sub"); plan.erase("only_exec");
                plan.set("check", MVal::str("c10")); plan.set("kind", MVal::str("enc_limit")); plan.set("ckind", MVal::integer(e.ck));
                plan.set("depth", MVal::uinteger(e.depth)); plan.set("limit", MVal::integer(e.lim)); plan.set("expect", MVal::integer(e.expect));
                return R.res;
            }
        }
    }
    R.res.hash = R.h;
    return R.res;
}

Result execute(MVal& plan, Stats& st) {
    std::string check = plan.gets("check", "c03");
    if (check == "c10") return exec_c10(plan, st);
    return exec_c03_c05(plan, st);
}

} // namespace iosim

int main(int argc, char** argv) {
    sim::Engine e{"iosim", iosim::generate, iosim::execute};
    return sim::worker_main(argc, argv, e);
}
