// iosim: delivery-independence (C03), I/O-fault robustness (C05 facet) and
// memory-follows-delivery (C10) for one format.  Included by one TU per format.
#pragma once
#include "../core/mini.hpp"
#include "../core/prng.hpp"
#include "../core/worker.hpp"
#include "../core/ledger.hpp"
#include "../core/simbuf.hpp"
#include <jsoncons/json.hpp>
#include <istream>
#include <list>
#include <new>
#include <typeinfo>

namespace iosim {
using sim::MVal;

// ---------------------------------------------------------------- recording visitor
struct Rec : public jsoncons::json_visitor {
    std::string log;
    uint64_t events = 0;
    uint64_t cap = 0;      // when set, decoding is stopped (through ec) after this many events: used to probe for amplifying inputs
    void chk(std::error_code& ec) { if (cap && events > cap) ec = std::make_error_code(std::errc::value_too_large); }
    void put(char k) { log.push_back(k); log.push_back('\n'); ++events; }
    void tagged(char k, jsoncons::semantic_tag t) { log.push_back(k); if (t != jsoncons::semantic_tag::none) { log.push_back('#'); log += std::to_string((int)t); } log.push_back(':'); }
    void bytes(const char* p, size_t n) { log += std::to_string(n); log.push_back(':'); log.append(p, n); log.push_back('\n'); ++events; }
private:
    void visit_flush() override {}
    JSONCONS_VISITOR_RETURN_TYPE visit_begin_object(jsoncons::semantic_tag t, const jsoncons::ser_context&, std::error_code& ec) override { chk(ec); tagged('{', t); log.push_back('\n'); ++events; JSONCONS_VISITOR_RETURN; }
    JSONCONS_VISITOR_RETURN_TYPE visit_end_object(const jsoncons::ser_context&, std::error_code& ec) override { chk(ec); put('}'); JSONCONS_VISITOR_RETURN; }
    JSONCONS_VISITOR_RETURN_TYPE visit_begin_array(jsoncons::semantic_tag t, const jsoncons::ser_context&, std::error_code& ec) override { chk(ec); tagged('[', t); log.push_back('\n'); ++events; JSONCONS_VISITOR_RETURN; }
    JSONCONS_VISITOR_RETURN_TYPE visit_end_array(const jsoncons::ser_context&, std::error_code& ec) override { chk(ec); put(']'); JSONCONS_VISITOR_RETURN; }
    JSONCONS_VISITOR_RETURN_TYPE visit_key(const string_view_type& s, const jsoncons::ser_context&, std::error_code& ec) override { chk(ec); log += "k:"; bytes(s.data(), s.size()); JSONCONS_VISITOR_RETURN; }
    JSONCONS_VISITOR_RETURN_TYPE visit_null(jsoncons::semantic_tag t, const jsoncons::ser_context&, std::error_code& ec) override { chk(ec); tagged('n', t); log.push_back('\n'); ++events; JSONCONS_VISITOR_RETURN; }
    JSONCONS_VISITOR_RETURN_TYPE visit_bool(bool v, jsoncons::semantic_tag t, const jsoncons::ser_context&, std::error_code& ec) override { chk(ec); tagged('b', t); log.push_back(v ? '1' : '0'); log.push_back('\n'); ++events; JSONCONS_VISITOR_RETURN; }
    JSONCONS_VISITOR_RETURN_TYPE visit_string(const string_view_type& s, jsoncons::semantic_tag t, const jsoncons::ser_context&, std::error_code& ec) override { chk(ec); tagged('s', t); bytes(s.data(), s.size()); JSONCONS_VISITOR_RETURN; }
    JSONCONS_VISITOR_RETURN_TYPE visit_byte_string(const jsoncons::byte_string_view& s, jsoncons::semantic_tag t, const jsoncons::ser_context&, std::error_code& ec) override { chk(ec); tagged('x', t); bytes((const char*)s.data(), s.size()); JSONCONS_VISITOR_RETURN; }
    JSONCONS_VISITOR_RETURN_TYPE visit_byte_string(const jsoncons::byte_string_view& s, uint64_t raw, const jsoncons::ser_context&, std::error_code& ec) override { chk(ec); log += "x@" + std::to_string(raw) + ":"; bytes((const char*)s.data(), s.size()); JSONCONS_VISITOR_RETURN; }
    JSONCONS_VISITOR_RETURN_TYPE visit_uint64(uint64_t v, jsoncons::semantic_tag t, const jsoncons::ser_context&, std::error_code& ec) override { chk(ec); tagged('u', t); log += std::to_string(v); log.push_back('\n'); ++events; JSONCONS_VISITOR_RETURN; }
    JSONCONS_VISITOR_RETURN_TYPE visit_int64(int64_t v, jsoncons::semantic_tag t, const jsoncons::ser_context&, std::error_code& ec) override { chk(ec); tagged('i', t); log += std::to_string(v); log.push_back('\n'); ++events; JSONCONS_VISITOR_RETURN; }
    JSONCONS_VISITOR_RETURN_TYPE visit_double(double v, jsoncons::semantic_tag t, const jsoncons::ser_context&, std::error_code& ec) override { chk(ec); tagged('d', t); uint64_t b; std::memcpy(&b, &v, 8); char buf[24]; snprintf(buf, sizeof buf, "%016llx", (unsigned long long)b); log += buf; log.push_back('\n'); ++events; JSONCONS_VISITOR_RETURN; }
};

// ---------------------------------------------------------------- outcome of one (mode, delivery) execution
struct Outcome {
    std::string events;      // event log (or value rendering) produced before the end
    std::string error;       // "" on success, else "<category>:<value>" or "EXC:<type>"
    std::string violation;   // non-empty: a C05-class violation observed in this execution (class suffix)
    std::string vdetail;
    uint64_t reads = 0, delivered = 0, peak = 0;
    uint64_t produced = 0;   // events / value nodes produced: zero-width typed containers legitimately expand a few bytes into many items
    uint64_t meter_live = 0, meter_at = 0;   // worst (live bytes, delivered bytes) pair seen by the memory meter
    bool stream_failed = false;
    bool idkeys = false;     // the cursor surfaced a non-string map key as an `id` event (the reader's adaptor stringifies such keys)
    std::string key() const { return events + "|E|" + error; }
};

inline std::string ec_str(const std::error_code& ec) { return ec ? std::string(ec.category().name()) + ":" + std::to_string(ec.value()) : std::string(); }

// ---------------------------------------------------------------- delivery description (from the plan)
struct Delivery {
    std::string kind = "contig";   // contig | stream | iter | list | istreambuf | push
    size_t chunk = 16384;          // internal chunk size of stream_source / iterator_source
    size_t getarea = 4096;         // SimStreambuf get-area size
    std::vector<size_t> chunks;    // push: explicit chunk lengths (rest delivered as a last chunk)
    // stream faults
    size_t fail_after = SIZE_MAX; int fail_kind = 0;
    MVal to_m() const {
        MVal o = MVal::obj(); o.set("kind", MVal::str(kind));
        if (kind == "stream" || kind == "iter" || kind == "list" || kind == "istreambuf") o.set("chunk", MVal::uinteger(chunk));
        if (kind == "stream" || kind == "istreambuf") o.set("getarea", MVal::uinteger(getarea));
        if (kind == "push") { MVal a = MVal::arr(); for (size_t c : chunks) a.push(MVal::uinteger(c)); o.set("chunks", a); }
        if (fail_kind) { o.set("fail_after", MVal::uinteger(fail_after)); o.set("fail_kind", MVal::integer(fail_kind)); }
        return o;
    }
    static Delivery from_m(const MVal& m) {
        Delivery d; d.kind = m.gets("kind", "contig");
        d.chunk = (size_t)m.getu("chunk", 16384); if (d.chunk == 0) d.chunk = 1; if (d.chunk > (1u << 20)) d.chunk = 1u << 20;
        d.getarea = (size_t)m.getu("getarea", 4096); if (d.getarea == 0) d.getarea = 1; if (d.getarea > (1u << 20)) d.getarea = 1u << 20;
        for (auto& c : m.geta("chunks")) { size_t v = (size_t)(c.k == MVal::Int ? c.i : 0); d.chunks.push_back(v ? v : 1); }
        d.fail_kind = (int)m.geti("fail_kind", 0); d.fail_after = (size_t)m.getu("fail_after", SIZE_MAX);
        return d;
    }
    std::string label() const { return to_m().dump(); }
};

// Memory meter read at every source read event (C10 clause i).
struct Meter : sim::ReadHook {
    uint64_t base = 0, worst_excess = 0, worst_at = 0, worst_live = 0; size_t chunk = 0; bool on = false;
    // one input byte can legitimately become one nested container (~350 bytes of value + decoder stack), so the factor is
    // generous; a length merely *claimed* is 2^20..2^62, orders of magnitude beyond SLACK + FACTOR * supplied.
    // PER_ITEM covers data actually produced (UBJSON $Z/$T/$F containers expand a 10-byte header into up to max_items items).
    static constexpr uint64_t SLACK = 256 * 1024, FACTOR = 1024, PER_ITEM = 256;
    static uint64_t allowed(uint64_t delivered, uint64_t chunk, uint64_t produced) { return SLACK + FACTOR * (delivered + chunk) + PER_ITEM * produced; }
    void on_read(uint64_t delivered, uint64_t) override {
        if (!on) return;
        uint64_t live = sim::ledger::live_bytes();
        uint64_t used = live > base ? live - base : 0;
        uint64_t a = allowed(delivered, chunk, 0);
        if (used > a && used - a > worst_excess) { worst_excess = used - a; worst_at = delivered; worst_live = used; }
    }
};

struct Ctx {
    const std::string* B = nullptr;        // bytes that reach the decoder
    const MVal* opts = nullptr;            // decode options from the plan
    uint64_t knob = 0;                     // mode parameter (which container for read_to, which predicate)
    bool meter = false;
    uint64_t cap = 0;                      // event cap for the recording visitor (probe runs)
    sim::Stats* st = nullptr;
};

// Classify an escaped exception.  Returns the error string; sets violation when it is not a documented channel.
inline void classify_exception(Outcome& o, const char* where) {
    try { throw; }
    catch (const sim::LivenessAbort& l) { o.error = "EXC:liveness"; o.violation = "liveness"; o.vdetail = std::string(where) + ": decoder kept reading: " + std::to_string(l.reads) + " source reads, " + std::to_string(l.reads_after_eof) + " after end of file"; }
    catch (const std::bad_alloc&) { o.error = "EXC:bad_alloc"; if (sim::ledger::cap_hits() == 0) { o.violation = "foreign-exception.bad_alloc"; o.vdetail = std::string(where) + ": std::bad_alloc with no memory exhaustion"; } }
    catch (const std::exception& e) {
        o.error = std::string("EXC:") + typeid(e).name();
        if (!dynamic_cast<const jsoncons::json_exception*>(&e)) { o.violation = std::string("foreign-exception.") + typeid(e).name(); o.vdetail = std::string(where) + ": exception that is not a jsoncons::json_exception escaped: " + e.what(); }
        // the error *kind* is what C03 compares: a ser_error carries the same error_code the ec overloads report
        else if (const jsoncons::ser_error* se = dynamic_cast<const jsoncons::ser_error*>(&e)) o.error = ec_str(se->code());
    }
    catch (...) { o.error = "EXC:unknown"; o.violation = "foreign-exception.unknown"; o.vdetail = std::string(where) + ": non-std exception escaped"; }
}

// Run `fn(sourceable)` with the input delivered as described by `d`.  CharT is char for text formats and
// uint8_t for binary formats.  The SimStreambuf outlives the call so counters can be read back.
template <class CharT, class Fn>
void with_source(const Delivery& d, const Ctx& cx, Outcome& out, Fn&& fn) {
    const std::string& B = *cx.B;
    const CharT* first = reinterpret_cast<const CharT*>(B.data());
    const CharT* last = first + B.size();
    uint64_t L = B.size();
    if (d.kind == "stream" || d.kind == "istreambuf") {
        sim::SimStreambuf sb(B.data(), B.size(), d.getarea);
        if (d.fail_kind) sb.fail_after(d.fail_after, d.fail_kind);
        sb.limits(4 * L + 64 + 4 * (L / (d.getarea ? d.getarea : 1) + 1), 64);
        Meter meter; meter.base = sim::ledger::live_bytes(); meter.chunk = d.chunk; meter.on = cx.meter; sb.hook = &meter;
        std::istream is(&sb);
        try {
            if constexpr (std::is_same<CharT, char>::value) {
                if (d.kind == "stream") fn(jsoncons::stream_source<CharT>(is, d.chunk));
                else { using It = std::istreambuf_iterator<char>; fn(jsoncons::iterator_source<It>(It(is), It(), d.chunk)); }
            } else fn(jsoncons::stream_source<CharT>(is, d.chunk));   // istreambuf_iterator delivers char: text formats only
        } catch (...) { classify_exception(out, d.kind.c_str()); }
        out.reads = sb.reads; out.delivered = sb.delivered; out.stream_failed = sb.failures_fired > 0;
        out.meter_live = meter.worst_live; out.meter_at = meter.worst_at;   // judged by the engine, which knows how many items the input produces
        return;
    }
    try {
        if (d.kind == "iter") fn(jsoncons::iterator_source<const CharT*>(first, last, d.chunk));
        else if (d.kind == "list") { std::list<CharT> l(first, last); fn(jsoncons::iterator_source<typename std::list<CharT>::iterator>(l.begin(), l.end(), d.chunk)); }
        else { struct V { const CharT* p; size_t n; using value_type = CharT; const CharT* data() const { return p; } size_t size() const { return n; } } v{first, B.size()}; fn(jsoncons::chars_source<CharT>(v)); }
    } catch (...) { classify_exception(out, d.kind.c_str()); }
    out.delivered = L;
}

// ---------------------------------------------------------------- per-format traits are defined in each TU:
//   using char_type;  static const char* name();
//   template <class Source> using reader_t / cursor_t;  options_t make_options(const MVal&);
//   static constexpr bool has_check_done;

// Forward a cursor event to the recording visitor.  Byte strings with a format-specific (ext) tag are forwarded
// with their raw tag, as the readers do, so that both logs are comparable.
inline void emit(const jsoncons::staj_event& ev, Rec& rec, const jsoncons::ser_context& ctx) {
    std::error_code e2;
    if (ev.event_type() == jsoncons::staj_event_type::byte_string_value && ev.tag() == jsoncons::semantic_tag::ext) {
        auto bv = ev.get<jsoncons::byte_string_view>(e2);
        rec.byte_string_value(bv, ev.ext_tag(), ctx, e2);
        return;
    }
    ev.send_event(rec, ctx, e2);
}

inline bool is_id_key(jsoncons::staj_event_type t) {
    return (static_cast<uint64_t>(t) & static_cast<uint64_t>(jsoncons::staj_event_type::key_flag)) != 0 && t != jsoncons::staj_event_type::key;
}

template <class T> struct Modes {
    using CharT = typename T::char_type;

    template <class Source> static void reader(Source&& src, const Ctx& cx, Outcome& o) {
        Rec rec; rec.cap = cx.cap; std::error_code ec;
        auto opts = T::make_options(*cx.opts);
        try {
            typename T::template reader_t<typename std::decay<Source>::type> rd(std::move(src), rec, opts);
            rd.read(ec);
        } catch (...) { o.events = rec.log; o.produced = rec.events; throw; }
        o.produced = rec.events; o.events = std::move(rec.log); o.error = ec_str(ec);
    }
    template <class Source> static void decoder(Source&& src, const Ctx& cx, Outcome& o) {
        jsoncons::json_decoder<jsoncons::ojson> dec; std::error_code ec;
        auto opts = T::make_options(*cx.opts);
        typename T::template reader_t<typename std::decay<Source>::type> rd(std::move(src), dec, opts);
        rd.read(ec);
        o.error = ec_str(ec);
        if (!ec && dec.is_valid()) { Rec rec; jsoncons::ojson j = dec.get_result(); j.dump(rec); o.produced = rec.events; o.events = std::move(rec.log); }
        else if (!ec) o.events = "<no value>";
    }
    // cursor: next() loop; knob selects read_to at the knob-th container start (0 = never) and a filter predicate
    template <class Source> static void cursor(Source&& src, const Ctx& cx, Outcome& o, int variant) {
        Rec rec; std::error_code ec;
        auto opts = T::make_options(*cx.opts);
        try {
            typename T::template cursor_t<typename std::decay<Source>::type> cur(std::move(src), opts, ec);
            uint64_t containers = 0;
            if (ec) { /* construction already reported an error: the cursor must not be used any further */ }
            else if (variant == 2) { // filter view: drop events rejected by the predicate
                auto pred = make_pred(cx.knob);
                jsoncons::staj_filter_view view(cur, pred);
                while (!ec && !view.done()) { std::error_code e2; if (is_id_key(view.current().event_type())) o.idkeys = true; emit(view.current(), rec, view.context()); view.next(ec); }
            } else if (variant == 3) { // plain cursor, predicate applied by the harness: the reference for the filter view
                auto pred = make_pred(cx.knob);
                while (!ec && !cur.done()) { std::error_code e2; if (is_id_key(cur.current().event_type())) o.idkeys = true; if (pred(cur.current(), cur.context())) emit(cur.current(), rec, cur.context()); cur.next(ec); }
            } else {
                while (!ec && !cur.done()) {
                    const auto& ev = cur.current();
                    if (is_id_key(ev.event_type())) o.idkeys = true;
                    bool begin = ev.event_type() == jsoncons::staj_event_type::begin_array || ev.event_type() == jsoncons::staj_event_type::begin_object;
                    if (begin) ++containers;
                    if (variant == 1 && begin && cx.knob && containers == cx.knob) cur.read_to(rec, ec);
                    else emit(ev, rec, cur.context());
                    if (!ec && !cur.done()) cur.next(ec);   // read_to may already have consumed the last event
                }
            }
            if (!ec) T::cursor_check_done(cur, ec);
        } catch (...) { o.events = rec.log; o.produced = rec.events; throw; }
        o.produced = rec.events; o.events = std::move(rec.log); o.error = ec_str(ec);
    }
    static std::function<bool(const jsoncons::staj_event&, const jsoncons::ser_context&)> make_pred(uint64_t knob) {
        switch (knob % 4) {
        case 0: return [](const jsoncons::staj_event& e, const jsoncons::ser_context&) { return e.event_type() != jsoncons::staj_event_type::null_value; };
        case 1: return [](const jsoncons::staj_event& e, const jsoncons::ser_context&) { return e.event_type() == jsoncons::staj_event_type::key || e.event_type() == jsoncons::staj_event_type::string_value; };
        case 2: return [](const jsoncons::staj_event& e, const jsoncons::ser_context&) { return e.event_type() != jsoncons::staj_event_type::begin_array && e.event_type() != jsoncons::staj_event_type::end_array; };
        default: return [](const jsoncons::staj_event& e, const jsoncons::ser_context& c) { return ((c.position() + (uint64_t)e.event_type()) & 1) == 0 || e.event_type() == jsoncons::staj_event_type::key; };
        }
    }
    // staj iterators over the root container
    template <class Source> static void iter(Source&& src, const Ctx& cx, Outcome& o) {
        Rec rec; std::error_code ec;
        auto opts = T::make_options(*cx.opts);
        try {
            typename T::template cursor_t<typename std::decay<Source>::type> cur(std::move(src), opts, ec);
            if (!ec && !cur.done()) {
                auto t = cur.current().event_type();
                if (t == jsoncons::staj_event_type::begin_array) {
                    rec.log += "[\n";
                    jsoncons::staj_array_iterator<jsoncons::ojson> it(cur, ec), end;
                    while (!ec && it != end) { (*it).dump(rec); it.increment(ec); }
                    if (!ec) rec.log += "]\n";
                } else if (t == jsoncons::staj_event_type::begin_object) {
                    rec.log += "{\n";
                    jsoncons::staj_object_iterator<std::string, jsoncons::ojson> it(cur, ec), end;
                    while (!ec && it != end) { rec.log += "k:" + std::to_string((*it).first.size()) + ":" + (*it).first + "\n"; (*it).second.dump(rec); it.increment(ec); }
                    if (!ec) rec.log += "}\n";
                } else emit(cur.current(), rec, cur.context());
            }
        } catch (...) { o.events = rec.log; o.produced = rec.events; throw; }
        o.produced = rec.events; o.events = std::move(rec.log); o.error = ec_str(ec);
    }

    // Execute one (mode, delivery).  All library objects are gone when this returns.
    static Outcome run(const std::string& mode, const Delivery& d, const Ctx& cx) {
        Outcome o;
        uint64_t live0 = sim::ledger::live_bytes();
        sim::ledger::reset_peak();
        auto call = [&](auto&& src) {
            if (mode == "reader") reader(std::move(src), cx, o);
            else if (mode == "decoder") decoder(std::move(src), cx, o);
            else if (mode == "cursor") cursor(std::move(src), cx, o, 0);
            else if (mode == "readto") cursor(std::move(src), cx, o, 1);
            else if (mode == "filter") cursor(std::move(src), cx, o, 2);
            else if (mode == "filterref") cursor(std::move(src), cx, o, 3);
            else if (mode == "iter") iter(std::move(src), cx, o);
        };
        with_source<CharT>(d, cx, o, call);
        o.peak = sim::ledger::peak_bytes() > live0 ? sim::ledger::peak_bytes() - live0 : 0;
        return o;
    }
};

// Leak check helper used around Modes::run by the engine (strings of the Outcome are harness-owned).
struct LeakGuard {
    uint64_t mark; uint64_t blocks;
    LeakGuard() : mark(sim::ledger::count()), blocks(sim::ledger::live_blocks()) {}
};

// One format's entry points, implemented in its TU.
struct FormatApi {
    const char* name;
    bool text;
    Outcome (*run)(const std::string& mode, const Delivery& d, const Ctx& cx);
    // convenience entry points: which = "view" | "stream" | "iter"
    Outcome (*entry)(const std::string& which, const Delivery& d, const Ctx& cx);
    // push parser (JSON, CSV): explicit chunks
    Outcome (*push)(const Delivery& d, const Ctx& cx);
    // render a JSON text document into this format (used only to generate inputs)
    std::string (*encode)(const std::string& json_text, uint64_t variant);
    // hand-written seed inputs (things the library's encoders never emit)
    std::vector<std::string> (*seeds)();
    // encoder into a failing sink (C05): returns violation text or ""
    Outcome (*encode_to_sink)(const std::string& json_text, size_t capacity, int kind, uint64_t variant);
    // push `depth` nested containers (ckind 0 arrays, 1 objects, 2 alternating) into the format's encoder configured with
    // max_nesting_depth = limit (C10: encoders enforce the limit on what they are asked to write); may be null
    Outcome (*encoder_nest)(int ckind, size_t depth, int limit);
};

// Shared driver for encoder_nest: Enc is constructed from (sink&, options).
template <class Enc, class Sink, class Opt>
Outcome encoder_nest_impl(int ckind, size_t depth, const Opt& opt, bool root_object) {
    Outcome o;
    try {
        Sink sink;
        Enc enc(sink, opt);
        std::error_code ec;
        jsoncons::ser_context ctx;
        size_t opened = 0; std::vector<char> kinds;
        for (size_t i = 0; i < depth && !ec; ++i) {
            bool obj = ckind == 1 || ckind == 4 || (ckind == 2 && (i & 1)) || (root_object && i == 0);
            bool nolength = ckind >= 3;
            if (!kinds.empty() && kinds.back() == '{') enc.key("k", ctx, ec);
            if (ec) break;
            if (obj) { if (nolength) enc.begin_object(jsoncons::semantic_tag::none, ctx, ec); else enc.begin_object(1, jsoncons::semantic_tag::none, ctx, ec); }
            else { if (nolength) enc.begin_array(jsoncons::semantic_tag::none, ctx, ec); else enc.begin_array(1, jsoncons::semantic_tag::none, ctx, ec); }
            if (!ec) { kinds.push_back(obj ? '{' : '['); ++opened; }
        }
        if (!ec) { if (!kinds.empty() && kinds.back() == '{') enc.key("k", ctx, ec); if (!ec) enc.uint64_value(1, jsoncons::semantic_tag::none, ctx, ec); }
        while (!ec && !kinds.empty()) { if (kinds.back() == '{') enc.end_object(ctx, ec); else enc.end_array(ctx, ec); kinds.pop_back(); }
        if (!ec) enc.flush();
        o.error = ec_str(ec);
        o.events = "opened " + std::to_string(opened);
    } catch (...) { classify_exception(o, "encoder_nest"); }
    return o;
}

const FormatApi& json_api(); const FormatApi& csv_api(); const FormatApi& cbor_api();
const FormatApi& msgpack_api(); const FormatApi& ubjson_api(); const FormatApi& bson_api(); const FormatApi& toon_api();

} // namespace iosim
