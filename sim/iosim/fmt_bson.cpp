#include "fmt_binary.hpp"
#include <jsoncons_ext/bson/bson.hpp>
using namespace jsoncons;
namespace iosim {
struct BsonT {
    using char_type = uint8_t;
    template <class S> using reader_t = bson::basic_bson_reader<S>;
    template <class S> using cursor_t = bson::basic_bson_cursor<S>;
    static bson::bson_options make_options(const MVal& o) { bson::bson_options opt; if (o.has("max_depth")) opt.max_nesting_depth((int)o.geti("max_depth")); return opt; }
    template <class C> static void cursor_check_done(C&, std::error_code&) {}
};
struct BsonB {
    using T = BsonT;
    static const char* name() { return "bson"; }
    template <class O> static ojson decode_view(const std::vector<uint8_t>& v, const O& o) { return bson::decode_bson<ojson>(v, o); }
    template <class It, class O> static ojson decode_iter(It a, It b, const O& o) { return bson::decode_bson<ojson>(a, b, o); }
    template <class O> static ojson decode_stream(std::istream& is, const O& o) { return bson::decode_bson<ojson>(is, o); }
    static ojson wrap(const ojson& j) { if (j.is_object()) return j; ojson o(json_object_arg); o.insert_or_assign("root", j); return o; }
    static void encode(const ojson& j, std::vector<uint8_t>& out, uint64_t) { bson::encode_bson(wrap(j), out); }
    static void encode_stream(const ojson& j, std::ostream& os, uint64_t) { bson::encode_bson(wrap(j), os); }
    static Outcome encoder_nest(int ckind, size_t depth, int limit) { auto opt = bson::bson_options{}.max_nesting_depth(limit); return encoder_nest_impl<bson::bson_bytes_encoder, std::vector<uint8_t>, bson::bson_options>(ckind, depth, opt, true); }
    static const char* const* seed_hex() {
        static const char* const s[] = {
            "0500000000",
            "1600000002 68656c6c6f00 06000000 776f726c6400 00",                                   // {"hello":"world"}
            "1000000001 6100 000000000000f83f 00",                                                // double
            "0c00000010 6100 01000000 00",                                                         // int32
            "1000000012 6100 0100000000000000 00",                                                // int64
            "0900000008 6100 01 00", "080000000a 6100 00", "0800000006 6100 00", "08000000ff 6100 00", "080000007f 6100 00",
            "1000000009 6100 00e4d2bb64010000 00",                                                // datetime
            "1000000011 6100 0100000002000000 00",                                                // timestamp
            "1400000007 6100 507f1f77bcf86cd799439011 00",                                        // oid
            "1800000013 6100 01000000000000000000000000004030 00",                                // decimal128
            "0f0000000b 6100 61622a00 6900 00",                                                    // regex
            "120000000d 6100 06000000 782b2b3b3100 00",                                            // javascript
            "1200000005 6100 05000000 00 0102030405 00", "1200000005 6100 05000000 80 0102030405 00", "0d00000005 6100 00000000 00 00",
            "1500000003 6100 0d000000 10 6200 01000000 00 00",                                    // embedded doc
            "1a00000004 6100 12000000 10 3000 01000000 10 3100 02000000 00 00",                  // array
            "1300000002 6100 07000000 73686f727400 c3a9 00",                                     // bad length
            "0e00000002 6100 02000000 c300 00",                                                    // invalid utf8
            "0e00000002 6100 03000000 6100 00", "0e00000002 6100 00000000 00 00", "0d00000002 6100 01000000 00 00",
            "2600000002 6b00 05000000 7368727400 02 6c00 0f000000 6c6f6e676572207374 72696e6700 00",
            "0c00000010 6100", "0c000000", "ffffff7f 10 6100 01000000 00", "0c000000 02 6100 ffffff7f 6100 00", "1200000005 6100 ffffff7f 00 0102 00", "0c00000003 6100 ffffff7f 00", "0c00000004 6100 ffffff7f 00",
            "0c00000010 6100 01000000 01", "0800000020 6100 00", "0c000000 10 61 01000000 00",
            "3100000003 6100 29000000 03 6100 21000000 03 6100 19000000 03 6100 11000000 03 6100 09000000 08 6100 01 00 00 00 00 00 00",
            nullptr };
        return s;
    }
};
const FormatApi& bson_api() { return BinaryFmt<BsonB>::api(); }
}
