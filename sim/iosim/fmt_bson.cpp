#include "fmt_binary.hpp"
#include "../core/binseeds.hpp"
#include <jsoncons_ext/bson/bson.hpp>
using namespace jsoncons;
namespace iosim {
struct BsonT {
    using char_type = uint8_t;
    template <class S> using reader_t = bson::basic_bson_reader<S>;
    template <class S> using cursor_t = bson::basic_bson_cursor<S>;
    static bson::bson_options make_options(const MVal& o) { bson::bson_options opt; if (o.has("max_depth")) opt.max_nesting_depth((int)o.geti("max_depth")); return opt; }
    template <class C> static void cursor_check_done(C&, std::error_code&) {}
};
struct BsonB {
    using T = BsonT;
    static const char* name() { return "bson"; }
    template <class O> static ojson decode_view(const std::vector<uint8_t>& v, const O& o) { return bson::decode_bson<ojson>(v, o); }
    template <class It, class O> static ojson decode_iter(It a, It b, const O& o) { return bson::decode_bson<ojson>(a, b, o); }
    template <class O> static ojson decode_stream(std::istream& is, const O& o) { return bson::decode_bson<ojson>(is, o); }
    static ojson wrap(const ojson& j) { if (j.is_object()) return j; ojson o(json_object_arg); o.insert_or_assign("root", j); return o; }
    static void encode(const ojson& j, std::vector<uint8_t>& out, uint64_t) { bson::encode_bson(wrap(j), out); }
    static void encode_stream(const ojson& j, std::ostream& os, uint64_t) { bson::encode_bson(wrap(j), os); }
    static Outcome encoder_nest(int ckind, size_t depth, int limit) { auto opt = bson::bson_options{}.max_nesting_depth(limit); return encoder_nest_impl<bson::bson_bytes_encoder, std::vector<uint8_t>, bson::bson_options>(ckind, depth, opt, true); }
    static const char* const* seed_hex() { return sim::binseeds::bson(); }
};
const FormatApi& bson_api() { return BinaryFmt<BsonB>::api(); }
}
