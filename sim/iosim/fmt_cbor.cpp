#include "fmt_binary.hpp"
#include "../core/binseeds.hpp"
#include <jsoncons_ext/cbor/cbor.hpp>
using namespace jsoncons;
namespace iosim {
struct CborT {
    using char_type = uint8_t;
    template <class S> using reader_t = cbor::basic_cbor_reader<S>;
    template <class S> using cursor_t = cbor::basic_cbor_cursor<S>;
    static cbor::cbor_options make_options(const MVal& o) { cbor::cbor_options opt; if (o.has("max_depth")) opt.max_nesting_depth((int)o.geti("max_depth")); return opt; }
    template <class C> static void cursor_check_done(C&, std::error_code&) {}
};
struct CborB {
    using T = CborT;
    static const char* name() { return "cbor"; }
    template <class O> static ojson decode_view(const std::vector<uint8_t>& v, const O& o) { return cbor::decode_cbor<ojson>(v, o); }
    template <class It, class O> static ojson decode_iter(It a, It b, const O& o) { return cbor::decode_cbor<ojson>(a, b, o); }
    template <class O> static ojson decode_stream(std::istream& is, const O& o) { return cbor::decode_cbor<ojson>(is, o); }
    static void encode(const ojson& j, std::vector<uint8_t>& out, uint64_t variant) { auto o = cbor::cbor_options{}.pack_strings(variant & 1).use_typed_arrays((variant & 2) != 0); cbor::encode_cbor(j, out, o); }
    static void encode_stream(const ojson& j, std::ostream& os, uint64_t variant) { auto o = cbor::cbor_options{}.pack_strings(variant & 1); cbor::encode_cbor(j, os, o); }
    static Outcome encoder_nest(int ckind, size_t depth, int limit) { auto opt = cbor::cbor_options{}.max_nesting_depth(limit); return encoder_nest_impl<cbor::cbor_bytes_encoder, std::vector<uint8_t>, cbor::cbor_options>(ckind, depth, opt, false); }
    static const char* const* seed_hex() { return sim::binseeds::cbor(); }
};
const FormatApi& cbor_api() { return BinaryFmt<CborB>::api(); }
}
