#include "fmt_binary.hpp"
#include <jsoncons_ext/cbor/cbor.hpp>
using namespace jsoncons;
namespace iosim {
struct CborT {
    using char_type = uint8_t;
    template <class S> using reader_t = cbor::basic_cbor_reader<S>;
    template <class S> using cursor_t = cbor::basic_cbor_cursor<S>;
    static cbor::cbor_options make_options(const MVal& o) { cbor::cbor_options opt; if (o.has("max_depth")) opt.max_nesting_depth((int)o.geti("max_depth")); return opt; }
    template <class C> static void cursor_check_done(C&, std::error_code&) {}
};
struct CborB {
    using T = CborT;
    static const char* name() { return "cbor"; }
    template <class O> static ojson decode_view(const std::vector<uint8_t>& v, const O& o) { return cbor::decode_cbor<ojson>(v, o); }
    template <class It, class O> static ojson decode_iter(It a, It b, const O& o) { return cbor::decode_cbor<ojson>(a, b, o); }
    template <class O> static ojson decode_stream(std::istream& is, const O& o) { return cbor::decode_cbor<ojson>(is, o); }
    static void encode(const ojson& j, std::vector<uint8_t>& out, uint64_t variant) { auto o = cbor::cbor_options{}.pack_strings(variant & 1).use_typed_arrays((variant & 2) != 0); cbor::encode_cbor(j, out, o); }
    static void encode_stream(const ojson& j, std::ostream& os, uint64_t variant) { auto o = cbor::cbor_options{}.pack_strings(variant & 1); cbor::encode_cbor(j, os, o); }
    static Outcome encoder_nest(int ckind, size_t depth, int limit) { auto opt = cbor::cbor_options{}.max_nesting_depth(limit); return encoder_nest_impl<cbor::cbor_bytes_encoder, std::vector<uint8_t>, cbor::cbor_options>(ckind, depth, opt, false); }
    static const char* const* seed_hex() {
        static const char* const s[] = {
            "9f0102ff", "bf616101ff", "7f616161626263ff", "5f41014202 03ff", "9f9f9fffffff", "bf6161bf6162 9f01ffffff", "7f6161ff", "5fff", "9f", "bf6161", "7f6161", "ff", "9fff ff",
            "c074323031332d30332d32315432303a30343a30305a", "c11a514b67b0", "c1fb41d452d9ec200000", "c249010000000000000000", "c349010000000000000000", "c48221196ab3", "c4822003", "c5822003", "c48202c2490100000000000000 00",
            "d82076687474703a2f2f7777772e6578616d706c652e636f6d", "d8184401020304", "d81563616263", "d81641ff", "d81741ff", "d82243616263",
            "d84043010203", "d8414400010002", "d8454401000200", "d8424800000001 00000002", "d846480100000002000000", "d84350 0000000000000001 0000000000000002", "d84843fffe01", "d84944fffe0001", "d84d44feff0100",
            "d8504400003c00", "d85148 3fc00000 40000000", "d85250 3ff8000000000000 4000000000000000", "d8544400003c 00", "d8554800 00c03f 00000040", "d85650 000000000000f83f 0000000000000040", "d8444301 ff7f",
            "d8288282020386010203040506", "d828828202039f010203040506ff", "d9040582820203 d841 4c000100020003000400050006", "d828828102 8301 0203",
            "d901008363616161636262 62d81900", "d90100 85 63616161 63626262 d81900 d81901 d81900", "d9010082 6161 d81900", "d81900",
            "1805", "190005", "1a00000005", "1b0000000000000005", "3800", "39ffff", "3a7fffffff", "3bffffffffffffffff", "3b7fffffffffffffff", "3b8000000000000000", "1bffffffffffffffff", "7803616263", "790003616263", "7a00000003616263", "7b0000000000000003616263", "5801ff", "980101", "b8016161 01",
            "f93c00", "f97c00", "f9fc00", "f97e00", "f90001", "fa3fc00000", "fa7f800000", "fb3ff8000000000000", "fb7ff0000000000000", "f4", "f5", "f6", "f7", "f820", "f8ff", "f0", "fc", "fd", "fe",
            "8301820203820405", "a26161018162 62820203", "a1 01 02", "a1 f6 02", "a1 8101 02", "a1616101 6161 02", "62c3a9", "62c328", "61ff", "63e282ac", "64f09f9880",
            "9b00000000ffffffff", "bb00000000ffffffff", "7b00000000ffffffff", "5b00000000ffffffff", "9a7fffffff01", "ba7fffffff616101", "7a7fffffff6161", "5a7fffffff01", "d8405b0000001000000000", "d8565a4000000000", "9b7fffffffffffffff", "bb7fffffffffffffff", "5b7fffffffffffffff", "7bffffffffffffffff", "9bffffffffffffffff",
            "818181818181818181818181818181818181818181818181818181818181818101", "c0c0c0c0c0c0c0c0c0c0c001", "d9d9f7a16161f5", "c1c2c3c40102",
            nullptr };
        return s;
    }
};
const FormatApi& cbor_api() { return BinaryFmt<CborB>::api(); }
}
