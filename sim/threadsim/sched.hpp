// threadsim scheduler interface.  Implemented in sched.cpp, which is compiled WITHOUT any sanitizer or
// coverage instrumentation: the baton hand-off is therefore invisible to ThreadSanitizer (tasks look
// unsynchronised, as they are in production) while the real execution is one exactly repeatable interleaving.
#pragma once
#include <cstdint>

extern "C" {
// Called by the main thread before creating task threads.
void sched_reset(int ntasks, uint64_t seed, uint32_t period, uint32_t start_skew);
// Called first thing by task thread `id` (0-based): parks until the scheduler hands it the baton.
void sched_task_begin(int id);
// Called last thing by task thread `id`: hands the baton on for good.
void sched_task_end(int id);
// Called by the main thread after creating all task threads: starts the run and returns when every task ended.
void sched_run(void);
// Tag the operation kind the calling task is executing (for the in-flight matrix); kinds < 16.
void sched_set_kind(int kind);
// Non-preemptible sections (used by the __cxa_guard wrappers and by the harness around its own bookkeeping).
void sched_no_preempt_enter(void);
void sched_no_preempt_leave(void);
// Results.
uint64_t sched_points(void);        // preemption points executed inside tasks
uint64_t sched_switches(void);      // baton hand-offs between different tasks
uint64_t sched_trace_hash(void);    // hash of the (point index, from, to, edge) switch sequence
uint64_t sched_guard_inits(void);   // guarded static initialisations executed inside the concurrent phase
const uint32_t* sched_matrix(void); // 16 x 16 counters: kind in flight in the task left x kind in the task entered
}
