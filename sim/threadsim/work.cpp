// threadsim workload (instrumented with -fsanitize=thread -fsanitize-coverage=trace-pc-guard):
// N real threads share immutable artefacts (compiled schemas, JSONPath / JMESPath expressions, const documents)
// and run seeded streams of read-only operations under the baton scheduler of sched.cpp.
#include "sched.hpp"
#include "../core/mini.hpp"
#include "../core/prng.hpp"
#include "../core/worker.hpp"
#include "../core/gen.hpp"
#include "../core/corpus.hpp"
#include "../core/corpus_files.hpp"
#include <jsoncons/json.hpp>
#include <jsoncons_ext/jsonpath/jsonpath.hpp>
#include <jsoncons_ext/jmespath/jmespath.hpp>
#include <jsoncons_ext/jsonschema/jsonschema.hpp>
#include <jsoncons_ext/jsonpointer/jsonpointer.hpp>
#include <jsoncons_ext/cbor/cbor.hpp>
#include <jsoncons_ext/msgpack/msgpack.hpp>
#include <pthread.h>
#include <memory>

using namespace sim;
using namespace jsoncons;

namespace threadsim {

// ---------------------------------------------------------------- artefacts
struct Artefact {
    std::string kind;
    std::unique_ptr<jsonschema::json_schema<json>> schema;
    std::unique_ptr<jsonpath::jsonpath_expression<json>> jpath;
    std::unique_ptr<jmespath::jmespath_expression<json>> jmes;
    std::unique_ptr<const json> doc;
    std::unique_ptr<const ojson> odoc;
};

// Value kinds that JSON text never produces (they come from the binary decoders or from construction): byte strings
// with a tag or an extension tag, big integers / big decimals kept as tagged long strings, half floats, tagged text,
// and empty-object / short-string / long-string storage kinds next to each other.
template <class J> static void enrich(J& j, uint64_t variety) {
    std::vector<uint8_t> bytes; for (unsigned i = 0; i < 24 + variety % 40; ++i) bytes.push_back((uint8_t)(i * 7 + variety));
    std::vector<J> extra;
    extra.emplace_back(byte_string_arg, bytes, semantic_tag::base64);
    extra.emplace_back(byte_string_arg, bytes, (uint64_t)(42 + variety % 3));
    extra.emplace_back(byte_string_arg, std::vector<uint8_t>{1, 2, 3}, semantic_tag::base16);
    extra.emplace_back("123456789012345678901234567890123456789", semantic_tag::bigint);
    extra.emplace_back("-18446744073709551617.5e-3", semantic_tag::bigdec);
    extra.emplace_back(half_arg, (uint16_t)0x3c00);
    extra.emplace_back("2026-10-04T12:00:00Z and some more characters", semantic_tag::datetime);
    extra.emplace_back(json_object_arg);
    { J a(json_array_arg); a.push_back(J(byte_string_arg, bytes)); a.push_back(J::null()); a.push_back(1.5); extra.push_back(std::move(a)); }
    if (j.is_object()) { int k = 0; for (auto& e : extra) j.try_emplace("rich" + std::to_string(k++), e); }
    else if (j.is_array()) { for (auto& e : extra) j.push_back(e); }
    else { J a(json_array_arg); a.push_back(j); for (auto& e : extra) a.push_back(e); j = std::move(a); }
    // one level down as well, so that copies of sub-documents meet them
    if (j.is_object()) { for (auto& kv : j.object_range()) if (kv.value().is_array() && kv.key().compare(0, 4, "rich") != 0) { kv.value().push_back(extra[0]); kv.value().push_back(extra[3]); break; } }
}

static std::unique_ptr<const json> build_input(const MVal& i, bool rich, uint64_t variety) {
    std::unique_ptr<json> j(new json(json::parse(i.dump())));
    if (rich) enrich(*j, variety);
    return std::unique_ptr<const json>(j.release());
}

static std::unique_ptr<Artefact> build(const MVal& a) {
    std::unique_ptr<Artefact> r(new Artefact);
    r->kind = a.gets("kind");
    if (r->kind == "schema") r->schema.reset(new jsonschema::json_schema<json>(jsonschema::make_json_schema(json::parse(plan_text(a, "schema")))));
    else if (r->kind == "jsonpath") r->jpath.reset(new jsonpath::jsonpath_expression<json>(jsonpath::make_expression<json>(a.gets("expr"))));
    else if (r->kind == "jmespath") r->jmes.reset(new jmespath::jmespath_expression<json>(jmespath::make_expression<json>(a.gets("expr"))));
    else if (r->kind == "doc") {
        json d = json::parse(plan_text(a, "doc")); ojson od = ojson::parse(plan_text(a, "doc"));
        if (a.getb("rich")) { enrich(d, a.getu("variety")); enrich(od, a.getu("variety")); }
        r->doc.reset(new json(std::move(d))); r->odoc.reset(new ojson(std::move(od)));
    }
    return r;
}

static const char* const schema_ops[] = {"is_valid", "validate_report", "validate_patch", "walk"};
static const char* const jsonpath_ops[] = {"evaluate", "evaluate_path", "evaluate_nodups_sort", "callback", "select_paths"};
static const char* const jmespath_ops[] = {"evaluate"};
static const char* const doc_ops[] = {"dump", "dump_pretty", "equal", "less", "lookup", "copy", "encode_cbor", "iterate", "at_missing", "pointer_get", "odump", "ocopy_equal", "as_string",
                                      "copy_members", "copy_assign", "as_bytes", "encode_msgpack", "copy_input", "odump_pretty"};

enum Kind { K_NONE, K_SCHEMA, K_JSONPATH, K_JMESPATH, K_DUMP, K_COMPARE, K_LOOKUP, K_COPY, K_ENCODE, K_THROW };

template <class J> static std::string text(const J& j) { std::string s; j.dump(s); return s; }

// One read-only operation on a (shared) artefact with a (shared) input document.  Returns a canonical rendering.
static std::string run_op(const Artefact& a, const std::string& op, const json& in, uint64_t arg) {
    try {
        if (a.kind == "schema") {
            sched_set_kind(K_SCHEMA);
            if (op == "is_valid") return a.schema->is_valid(in) ? "valid" : "invalid";
            if (op == "validate_report") {
                std::string log;
                a.schema->validate(in, [&](const jsonschema::validation_message& m) { log += m.keyword(); log += "@"; log += m.instance_location().string(); log += ":"; log += m.message(); log += ";"; return jsonschema::walk_result::advance; });
                return log;
            }
            if (op == "validate_patch") { json patch; a.schema->validate(in, patch); return text(patch); }
            if (op == "walk") { std::string log; a.schema->walk(in, [&](const std::string& kw, const json&, const uri&, const json&, const jsonpointer::json_pointer& loc) { log += kw; log += "@"; log += loc.string(); log += ";"; return jsonschema::walk_result::advance; }); return log; }
        } else if (a.kind == "jsonpath") {
            sched_set_kind(K_JSONPATH);
            if (op == "evaluate") return text(a.jpath->evaluate(in));
            if (op == "evaluate_path") return text(a.jpath->evaluate(in, jsonpath::result_options::path));
            if (op == "evaluate_nodups_sort") return text(a.jpath->evaluate(in, jsonpath::result_options::nodups | jsonpath::result_options::sort));
            if (op == "callback") { std::string log; a.jpath->evaluate(in, [&](const std::string& p, const json& v) { log += p; log += "="; log += text(v); log += ";"; }); return log; }
            if (op == "select_paths") { std::string log; for (auto& l : a.jpath->select_paths(in)) { log += jsonpath::to_string(l); log += ";"; } return log; }
        } else if (a.kind == "jmespath") {
            sched_set_kind(K_JMESPATH);
            std::error_code ec; json r = a.jmes->evaluate(in, ec);
            return text(r) + (ec ? "|" + ec.message() : "");
        } else if (a.kind == "doc") {
            const json& d = *a.doc; const ojson& od = *a.odoc;
            if (op == "dump") { sched_set_kind(K_DUMP); return text(d); }
            if (op == "odump") { sched_set_kind(K_DUMP); return text(od); }
            if (op == "dump_pretty") { sched_set_kind(K_DUMP); std::string s; d.dump_pretty(s); return s; }
            if (op == "equal") { sched_set_kind(K_COMPARE); return (d == in) ? "eq" : "ne"; }
            if (op == "less") { sched_set_kind(K_COMPARE); return (d < in) ? "lt" : "ge"; }
            if (op == "lookup") {
                sched_set_kind(K_LOOKUP);
                std::string log = std::to_string(d.size());
                if (d.is_object()) { log += d.contains("store") ? "+store" : "-store"; auto it = d.find("expensive"); if (it != d.object_range().end()) log += text(it->value()); if (d.contains("store")) log += std::to_string(d["store"].size()); }
                else if (d.is_array() && !d.empty()) log += text(d[arg % d.size()]);
                return log;
            }
            if (op == "copy") { sched_set_kind(K_COPY); json c(d); return text(c); }
            if (op == "copy_members") {       // copies of sub-values, created and destroyed one by one, then all together
                sched_set_kind(K_COPY);
                std::string log; std::vector<json> keep;
                if (d.is_object()) for (const auto& kv : d.object_range()) { json c(kv.value()); log += kv.key(); log += "="; log += text(c); log += ";"; if (keep.size() < 12) keep.push_back(kv.value()); }
                else if (d.is_array()) for (const auto& e : d.array_range()) { json c(e); log += text(c); log += ";"; if (keep.size() < 12) keep.push_back(e); }
                keep.clear();
                return log;
            }
            if (op == "copy_assign") { sched_set_kind(K_COPY); json c; c = d; json c2(c); c = in; ojson oc; oc = od; return text(c2) + text(c) + text(oc); }
            if (op == "copy_input") { sched_set_kind(K_COPY); json c(in); json e(json_array_arg); e.push_back(in); e.push_back(d); return text(c) + text(e); }
            if (op == "as_bytes") {
                sched_set_kind(K_LOOKUP);
                std::string log;
                auto one = [&](const json& v) { if (v.is_byte_string()) { auto bv = v.as_byte_string_view(); log += to_hex(std::string(bv.begin(), bv.end())); log += "/"; log += std::to_string(v.ext_tag()); log += ";"; auto bs = v.as<std::vector<uint8_t>>(); log += std::to_string(bs.size()); } else if (v.is_bignum()) { log += v.as<std::string>(); log += ";"; } };
                if (d.is_object()) for (const auto& kv : d.object_range()) one(kv.value()); else if (d.is_array()) for (const auto& e : d.array_range()) one(e);
                return log;
            }
            if (op == "encode_msgpack") { sched_set_kind(K_ENCODE); std::vector<uint8_t> b; msgpack::encode_msgpack(d, b); return to_hex(std::string(b.begin(), b.end())); }
            if (op == "odump_pretty") { sched_set_kind(K_DUMP); std::string s; od.dump_pretty(s); return s; }
            if (op == "ocopy_equal") { sched_set_kind(K_COPY); ojson c(od); return (c == od) ? "eq" : "ne"; }
            if (op == "encode_cbor") { sched_set_kind(K_ENCODE); std::vector<uint8_t> b; cbor::encode_cbor(d, b); return to_hex(std::string(b.begin(), b.end())); }
            if (op == "iterate") {
                sched_set_kind(K_LOOKUP);
                uint64_t n = 0;
                if (d.is_object()) for (const auto& kv : d.object_range()) n += kv.key().size() + kv.value().size();
                else if (d.is_array()) for (const auto& e : d.array_range()) n += e.size() + 1;
                return std::to_string(n);
            }
            if (op == "at_missing") { sched_set_kind(K_THROW); return text(d.at("no such member")); }
            if (op == "pointer_get") { sched_set_kind(K_LOOKUP); std::error_code ec; json r = jsonpointer::get(d, arg & 1 ? "/store/book/0/title" : "/store/bicycle/color", ec); return text(r) + (ec ? "|" + ec.message() : ""); }
            if (op == "as_string") { sched_set_kind(K_LOOKUP); return d.is_object() && d.contains("store") ? d["store"]["bicycle"]["color"].as<std::string>() : d.as<std::string>(); }
        }
    } catch (const std::exception& e) {
        return std::string("EXC:") + e.what();
    }
    return "?";
}

// ---------------------------------------------------------------- plan generation
MVal generate(const std::string&, uint64_t seed, uint64_t idx) {
    Rng r(mix3(seed, 0xC20, idx));
    MVal plan = MVal::obj();
    plan.set("engine", MVal::str("threadsim")); plan.set("seed", MVal::uinteger(seed)); plan.set("idx", MVal::uinteger(idx));
    static const uint32_t periods[] = {1, 4, 16, 64, 256, 1024, 100000000};
    plan.set("sched_seed", MVal::uinteger(r.next() >> 4));
    plan.set("period", MVal::uinteger(r.pick(periods)));
    plan.set("skew", MVal::uinteger(r.below(2000)));
    MVal arts = MVal::arr();
    MVal ins = MVal::arr();
    const corpus::Files& F = corpus::files();
    size_t na = 2 + r.below(4);
    std::vector<size_t> pref(na, SIZE_MAX);      // input index that belongs to the artefact (its corpus group's document)
    for (size_t i = 0; i < na; ++i) {
        MVal a = MVal::obj();
        unsigned sel = (unsigned)r.below(8);
        bool from_files = r.chance(3, 5);
        if (sel < 3) {
            a.set("kind", MVal::str("schema"));
            if (from_files && !F.schema_groups.empty()) {
                const MVal& g = F.schema_groups[r.below(F.schema_groups.size())];
                a.set("schema", *g.find("schema")); a.set("src", *g.find("src"));
                const auto& gi = g.geta("instances");
                if (!gi.empty()) { pref[i] = ins.a.size(); for (size_t k = 0; k < gi.size() && k < 4; ++k) ins.push(gi[(k + r.below(gi.size())) % gi.size()]); }
            } else a.set("schema", MVal::parse(r.pick(corpus::schemas).schema));
        } else if (sel < 5) {
            a.set("kind", MVal::str("jsonpath"));
            if (from_files && !F.jsonpath_groups.empty()) {
                const MVal& g = F.jsonpath_groups[r.below(F.jsonpath_groups.size())];
                const auto& ex = g.geta("exprs"); a.set("expr", ex[r.below(ex.size())]);
                pref[i] = ins.a.size(); ins.push(*g.find("given"));
            } else a.set("expr", MVal::str(r.pick(corpus::jsonpaths)));
        } else if (sel < 6) {
            a.set("kind", MVal::str("jmespath"));
            if (from_files && !F.jmespath_groups.empty()) {
                const MVal& g = F.jmespath_groups[r.below(F.jmespath_groups.size())];
                const auto& ex = g.geta("exprs"); a.set("expr", ex[r.below(ex.size())]);
                pref[i] = ins.a.size(); ins.push(*g.find("given"));
            } else a.set("expr", MVal::str(r.pick(corpus::jmespaths)));
        } else { a.set("kind", MVal::str("doc")); a.set("doc", corpus::store_doc(r)); if (r.chance(3, 5)) { a.set("rich", MVal::boolean(true)); a.set("variety", MVal::uinteger(r.below(64))); } }
        arts.push(a);
    }
    plan.set("artefacts", arts);
    size_t extra = 2 + r.below(3);
    for (size_t i = 0; i < extra; ++i) {
        if (r.chance(1, 3)) ins.push(MVal::parse(r.pick(corpus::schemas).inst));
        else ins.push(corpus::store_doc(r));
    }
    plan.set("inputs", ins);
    size_t ni = ins.a.size();
    // some shared inputs carry the non-JSON value kinds too (query results then copy them); inputs of schema groups stay pure JSON
    MVal rich_in = MVal::arr();
    for (size_t i = 0; i < ni; ++i) rich_in.push(MVal::boolean(i >= ni - extra && r.chance(1, 2)));
    plan.set("rich_inputs", rich_in);
    size_t nt = 2 + r.below(r.chance(1, 4) ? 15 : 5);
    MVal tasks = MVal::arr();
    for (size_t t = 0; t < nt; ++t) {
        MVal ops = MVal::arr();
        size_t no = 2 + r.below(10);
        for (size_t i = 0; i < no; ++i) {
            size_t ai = (size_t)r.below(na);
            std::string kind = arts.a[ai].gets("kind");
            MVal o = MVal::obj(); o.set("a", MVal::uinteger(ai));
            if (kind == "schema") o.set("op", MVal::str(r.pick(schema_ops)));
            else if (kind == "jsonpath") o.set("op", MVal::str(r.pick(jsonpath_ops)));
            else if (kind == "jmespath") o.set("op", MVal::str(r.pick(jmespath_ops)));
            else o.set("op", MVal::str(r.pick(doc_ops)));
            o.set("in", MVal::uinteger(pref[ai] != SIZE_MAX && r.chance(2, 3) ? pref[ai] + r.below(2) : r.below(ni))); o.set("arg", MVal::uinteger(r.below(16)));
            ops.push(o);
        }
        tasks.push(ops);
    }
    plan.set("tasks", tasks);
    return plan;
}

// ---------------------------------------------------------------- execution
struct TaskCtx {
    int id;
    const std::vector<std::unique_ptr<Artefact>>* arts;
    const std::vector<std::unique_ptr<const json>>* inputs;
    std::vector<const MVal*> ops;
    std::vector<std::string> results;   // owned by this task only
};

static void* task_main(void* p) {
    TaskCtx& t = *static_cast<TaskCtx*>(p);
    sched_task_begin(t.id);
    for (size_t i = 0; i < t.ops.size(); ++i) {
        const MVal& o = *t.ops[i];
        const Artefact& a = *(*t.arts)[o.getu("a") % t.arts->size()];
        const json& in = *(*t.inputs)[o.getu("in") % t.inputs->size()];
        t.results[i] = run_op(a, o.gets("op"), in, o.getu("arg"));
    }
    sched_set_kind(K_NONE);
    sched_task_end(t.id);
    return nullptr;
}

Result execute(MVal& plan, Stats& st) {
    Result res;
    const auto& arts_m = plan.geta("artefacts"); const auto& ins_m = plan.geta("inputs"); const auto& tasks_m = plan.geta("tasks"); const auto& rich_m = plan.geta("rich_inputs");
    if (arts_m.empty() || ins_m.empty() || tasks_m.empty() || tasks_m.size() > 30) { res.cls = "invalid-plan"; return res; }
    std::vector<std::unique_ptr<Artefact>> arts, ref_arts;
    std::vector<std::unique_ptr<const json>> inputs, ref_inputs;
    try {
        for (auto& a : arts_m) { arts.push_back(build(a)); }
        for (size_t k = 0; k < ins_m.size(); ++k) inputs.push_back(build_input(ins_m[k], k < rich_m.size() && rich_m[k].k == MVal::Bool && rich_m[k].b, k));
    } catch (const std::exception& e) { res.cls = "invalid-plan"; res.detail = e.what(); return res; }
    std::vector<std::string> docs_before;
    for (auto& a : arts) if (a->doc) docs_before.push_back(text(*a->doc) + text(*a->odoc));
    for (auto& i : inputs) docs_before.push_back(text(*i));

    size_t nt = tasks_m.size();
    std::vector<TaskCtx> ctx(nt);
    for (size_t t = 0; t < nt; ++t) {
        ctx[t].id = (int)t; ctx[t].arts = &arts; ctx[t].inputs = &inputs;
        for (auto& o : tasks_m[t].a) if (o.k == MVal::Obj) ctx[t].ops.push_back(&o);
        ctx[t].results.resize(ctx[t].ops.size());
    }
    sched_reset((int)nt, plan.getu("sched_seed"), (uint32_t)plan.getu("period", 16), (uint32_t)plan.getu("skew"));
    progress(1);
    std::vector<pthread_t> th(nt);
    for (size_t t = 0; t < nt; ++t) pthread_create(&th[t], nullptr, task_main, &ctx[t]);
    sched_run();
    for (size_t t = 0; t < nt; ++t) pthread_join(th[t], nullptr);
    progress(2);

    st.inc("plans"); st.inc("tasks", nt); st.inc("preemption_points", sched_points()); st.inc("baton_switches", sched_switches());
    st.inc("guarded_static_inits_in_concurrent_phase", sched_guard_inits());
    st.maxi("tasks_in_one_run", nt); st.maxi("switches_in_one_run", sched_switches());
    if (sched_switches() > 0) st.nontrivial(sched_trace_hash());
    const uint32_t* mx = sched_matrix();
    static const char* kn[] = {"none", "schema", "jsonpath", "jmespath", "dump", "compare", "lookup", "copy", "encode", "throw"};
    for (int i = 1; i < 10; ++i) for (int j = 1; j < 10; ++j) if (mx[i * 16 + j]) st.inc(std::string("inflight.") + kn[i] + "+" + kn[j], mx[i * 16 + j]);

    // Oracle 2: every result equals the single-threaded result computed AFTERWARDS on separately built artefacts.
    for (auto& a : arts_m) ref_arts.push_back(build(a));
    for (size_t k = 0; k < ins_m.size(); ++k) ref_inputs.push_back(build_input(ins_m[k], k < rich_m.size() && rich_m[k].k == MVal::Bool && rich_m[k].b, k));
    uint64_t h = sched_trace_hash();
    for (size_t t = 0; t < nt && res.ok; ++t) {
        for (size_t i = 0; i < ctx[t].ops.size(); ++i) {
            const MVal& o = *ctx[t].ops[i];
            std::string expect = run_op(*ref_arts[o.getu("a") % ref_arts.size()], o.gets("op"), *ref_inputs[o.getu("in") % ref_inputs.size()], o.getu("arg"));
            st.inc("ops_compared"); st.inc("op." + arts_m[o.getu("a") % arts_m.size()].gets("kind") + "." + o.gets("op"));
            h = fnv1a(ctx[t].results[i], h);
            if (ctx[t].results[i] != expect) {
                res.fail("c20.result-differs." + arts_m[o.getu("a") % arts_m.size()].gets("kind") + "." + o.gets("op"),
                         "task " + std::to_string(t) + " op " + std::to_string(i) + " returned " + ctx[t].results[i].substr(0, 300) + " concurrently but " + expect.substr(0, 300) + " single-threaded");
                break;
            }
        }
    }
    // Oracle 3: shared values unchanged
    std::vector<std::string> docs_after;
    for (auto& a : arts) if (a->doc) docs_after.push_back(text(*a->doc) + text(*a->odoc));
    for (auto& i : inputs) docs_after.push_back(text(*i));
    if (res.ok && docs_after != docs_before) res.fail("c20.shared-value-modified", "a shared const document dumps differently after the concurrent phase");
    res.hash = h;
    return res;
}

} // namespace threadsim

int main(int argc, char** argv) {
    sim::Engine e{"threadsim", threadsim::generate, threadsim::execute, true};
    return sim::worker_main(argc, argv, e);
}
