// Seeded baton scheduler.  NO instrumentation in this TU (see run.py flags): nothing here is visible to TSan,
// and nothing here calls an intercepted libc function on shared data (fixed arrays, raw futex syscall).
#include "sched.hpp"
#include <linux/futex.h>
#include <sys/syscall.h>
#include <climits>

namespace {
constexpr int MAXT = 32;
constexpr int MAIN = -2;
struct S {
    int turn;                 // futex word: id of the task that may run, or MAIN
    int ntasks;
    int alive[MAXT];
    int kind[MAXT];
    int nopreempt[MAXT];
    bool active;
    uint64_t rng[2];
    uint32_t period, countdown, skew;
    uint64_t points, switches, trace, guard_inits;
    uint32_t matrix[256];
} g;
__thread int t_id = -1;

inline long raw_futex(int* addr, int op, int val) {
    long ret;
    register long r10 __asm__("r10") = 0;     // timeout = NULL
    register long r8 __asm__("r8") = 0;
    register long r9 __asm__("r9") = 0;
    __asm__ volatile("syscall" : "=a"(ret) : "0"((long)SYS_futex), "D"(addr), "S"((long)op), "d"((long)val), "r"(r10), "r"(r8), "r"(r9) : "rcx", "r11", "memory");
    return ret;
}
inline uint64_t next_rand() { // xorshift128+
    uint64_t s1 = g.rng[0]; const uint64_t s0 = g.rng[1];
    g.rng[0] = s0; s1 ^= s1 << 23; g.rng[1] = s1 ^ s0 ^ (s1 >> 18) ^ (s0 >> 5);
    return g.rng[1] + s0;
}
inline void wait_turn(int me) {
    for (;;) {
        int t = __atomic_load_n(&g.turn, __ATOMIC_ACQUIRE);
        if (t == me) return;
        raw_futex(&g.turn, FUTEX_WAIT_PRIVATE, t);
    }
}
inline void give(int to) {
    __atomic_store_n(&g.turn, to, __ATOMIC_RELEASE);
    raw_futex(&g.turn, FUTEX_WAKE_PRIVATE, INT_MAX);
}
inline int pick_alive(int exclude_none) {
    (void)exclude_none;
    int n = 0; int ids[MAXT];
    for (int i = 0; i < g.ntasks; ++i) if (g.alive[i]) ids[n++] = i;
    if (!n) return MAIN;
    return ids[next_rand() % (uint64_t)n];
}
inline uint32_t draw_period() {
    if (g.period <= 1) return 1;
    // geometric-ish around the period so that switches do not fall on a fixed lattice
    return 1 + (uint32_t)(next_rand() % (2ull * g.period));
}
inline void preempt(int me, uint32_t edge) {
    ++g.points;
    if (g.nopreempt[me] > 0) return;
    if (g.countdown > 1) { --g.countdown; return; }
    g.countdown = draw_period();
    int to = pick_alive(0);
    if (to == me || to == MAIN) return;
    ++g.switches;
    g.trace = (g.trace ^ (g.points * 0x9e3779b97f4a7c15ULL + (uint64_t)me * 131 + (uint64_t)to * 17 + edge)) * 0x100000001b3ULL;
    ++g.matrix[(g.kind[me] & 15) * 16 + (g.kind[to] & 15)];
    give(to);
    wait_turn(me);
}
} // namespace

extern "C" {

void sched_reset(int ntasks, uint64_t seed, uint32_t period, uint32_t start_skew) {
    if (ntasks > MAXT) ntasks = MAXT;
    g.ntasks = ntasks; g.active = false; g.turn = MAIN;
    for (int i = 0; i < MAXT; ++i) { g.alive[i] = i < ntasks; g.kind[i] = 0; g.nopreempt[i] = 0; }
    g.rng[0] = seed * 0x9e3779b97f4a7c15ULL + 0x1234567; g.rng[1] = (seed ^ 0xdeadbeefcafef00dULL) | 1;
    for (int i = 0; i < 8; ++i) next_rand();
    g.period = period ? period : 1; g.skew = start_skew; g.countdown = 1 + start_skew;
    g.points = g.switches = g.guard_inits = 0; g.trace = 1469598103934665603ULL;
    for (int i = 0; i < 256; ++i) g.matrix[i] = 0;
}
void sched_task_begin(int id) { t_id = id; wait_turn(id); }
void sched_task_end(int id) {
    g.alive[id] = 0;
    t_id = -1;
    give(pick_alive(0));
}
void sched_run(void) {
    g.active = true;
    give(pick_alive(0));
    wait_turn(MAIN);
    g.active = false;
}
void sched_set_kind(int kind) { if (t_id >= 0) g.kind[t_id] = kind; }
void sched_no_preempt_enter(void) { if (t_id >= 0) ++g.nopreempt[t_id]; }
void sched_no_preempt_leave(void) { if (t_id >= 0 && g.nopreempt[t_id] > 0) --g.nopreempt[t_id]; }
uint64_t sched_points(void) { return g.points; }
uint64_t sched_switches(void) { return g.switches; }
uint64_t sched_trace_hash(void) { return g.trace; }
uint64_t sched_guard_inits(void) { return g.guard_inits; }
const uint32_t* sched_matrix(void) { return g.matrix; }

// Preemption points: every control-flow edge of instrumented code (-fsanitize-coverage=trace-pc-guard).
void __sanitizer_cov_trace_pc_guard_init(uint32_t* start, uint32_t* stop) {
    static uint32_t n = 0;
    if (start == stop || *start) return;
    for (uint32_t* x = start; x < stop; ++x) *x = ++n;
}
void __sanitizer_cov_trace_pc_guard(uint32_t* guard) {
    int me = t_id;
    if (me < 0 || !g.active) return;
    preempt(me, *guard);
}

// Function-local statics: a guarded initialiser is never preempted, so no task is ever parked holding a guard.
int __real___cxa_guard_acquire(void*);
void __real___cxa_guard_release(void*);
void __real___cxa_guard_abort(void*);
int __wrap___cxa_guard_acquire(void* gd) {
    sched_no_preempt_enter();
    int r = __real___cxa_guard_acquire(gd);
    if (!r) sched_no_preempt_leave();
    else if (t_id >= 0) ++g.guard_inits;
    return r;
}
void __wrap___cxa_guard_release(void* gd) { __real___cxa_guard_release(gd); sched_no_preempt_leave(); }
void __wrap___cxa_guard_abort(void* gd) { __real___cxa_guard_abort(gd); sched_no_preempt_leave(); }

} // extern "C"
