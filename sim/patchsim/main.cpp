// patchsim: C15 — JSON Patch against an independent RFC 6902 model, with an abort injected at every
// position of a generated operation history (every failure class the RFC names), and the diff law.
#include "../core/mini.hpp"
#include "../core/prng.hpp"
#include "../core/worker.hpp"
#include "../core/gen.hpp"
#include "../core/patchmodel.hpp"
#include <jsoncons/json.hpp>
#include <jsoncons_ext/jsonpatch/jsonpatch.hpp>
#include <typeinfo>
#include <cstdlib>
#include <cstring>

using namespace sim;
using namespace jsoncons;

namespace patchsim {

MVal generate(const std::string&, uint64_t seed, uint64_t idx) {
    Rng r(mix3(seed, 0xC15, idx));
    MVal plan = MVal::obj();
    plan.set("engine", MVal::str("patchsim")); plan.set("seed", MVal::uinteger(seed)); plan.set("idx", MVal::uinteger(idx));
    plan.set("ordered", MVal::boolean((idx & 1) != 0));
    plan.set("use_ec", MVal::boolean(r.coin()));
    GenOpts go; go.max_depth = 1 + (int)r.below(3); go.max_width = 1 + (int)r.below(5); go.hostile_keys = r.chance(1, 2); go.doubles = true; go.root_container = !r.chance(1, 10);
    MVal doc = gen_value(r, go);
    plan.set("doc", doc);
    if (idx % 5 == 4) {
        // diff law on an independent pair
        plan.set("mode", MVal::str("diff"));
        plan.set("doc2", gen_value(r, go));
        return plan;
    }
    plan.set("mode", MVal::str("history"));
    size_t k = 1 + r.below(12);
    MVal hist = pm::gen_history(r, doc, k, go);
    plan.set("patch", hist);
    // an abort for every position x every failure class, built against the document as evolved so far
    MVal aborts = MVal::arr();
    MVal cur = doc;
    for (size_t p = 0; p < hist.a.size(); ++p) {
        for (size_t c = 0; c < pm::n_fail_classes; ++c) {
            MVal bad = pm::gen_bad_op(r, cur, pm::fail_classes[c]);
            if (bad.is_null()) continue;
            MVal a = MVal::obj(); a.set("pos", MVal::uinteger(p)); a.set("cls", MVal::str(pm::fail_classes[c])); a.set("op", bad);
            aborts.push(a);
        }
        pm::apply_op(cur, hist.a[p]);
    }
    plan.set("aborts", aborts);
    return plan;
}

template <class Json> static MVal to_m(const Json& j) { std::string s; j.dump(s); return MVal::parse(s); }

struct One { bool reported = false; std::string how; MVal after; std::string exc; };

template <class Json> static One apply(const std::string& doc_text, const std::string& patch_text, bool use_ec) {
    One o;
    Json target = Json::parse(doc_text);
    Json patch = Json::parse(patch_text);
    try {
        if (use_ec) { std::error_code ec; jsonpatch::apply_patch(target, patch, ec); if (ec) { o.reported = true; o.how = ec.message(); } }
        else jsonpatch::apply_patch(target, patch);
    } catch (const jsonpatch::jsonpatch_error& e) { o.reported = true; o.how = e.code().message(); }
    catch (const std::exception& e) {
        o.reported = true; o.how = std::string("exception ") + typeid(e).name() + ": " + e.what();
        if (!dynamic_cast<const json_exception*>(&e)) o.exc = o.how;
    }
    o.after = to_m(target);
    return o;
}

static std::string check_one(const MVal& doc, const MVal& patch, bool ordered, bool use_ec, Stats& st, const char* tag) {
    MVal expect = doc; size_t failed_at = 0;
    bool model_ok = pm::apply_patch(expect, patch, &failed_at);
    std::string dt = doc.dump(), pt = patch.dump();
    One o = ordered ? apply<ojson>(dt, pt, use_ec) : apply<json>(dt, pt, use_ec);
    st.inc("patches_applied"); st.inc(std::string("patches.") + tag + (model_ok ? ".ok" : ".abort"));
    if (!o.exc.empty()) return "foreign-exception|an exception that is not a jsoncons exception escaped apply_patch: " + o.exc;
    if (model_ok) {
        if (o.reported) return "rejects-valid|RFC 6902 applies this patch but apply_patch reports: " + o.how + "; expected result " + expect.dump().substr(0, 300);
        if (!o.after.equals(expect)) return "wrong-result|patched document is " + o.after.dump().substr(0, 300) + " but RFC 6902 gives " + expect.dump().substr(0, 300);
    } else {
        if (!o.reported) return "accepts-invalid|operation #" + std::to_string(failed_at) + " must fail under RFC 6902 but apply_patch reports success; document now " + o.after.dump().substr(0, 300);
        if (!o.after.equals(doc)) return "not-atomic|operation #" + std::to_string(failed_at) + " fails (" + o.how + ") but the target is left as " + o.after.dump().substr(0, 300) + " instead of its pre-call value " + doc.dump().substr(0, 300);
    }
    return "";
}

template <class Json> static std::string diff_law(const MVal& a, const MVal& b, Stats& st) {
    Json ja = Json::parse(a.dump()), jb = Json::parse(b.dump());
    Json d = jsonpatch::from_diff(ja, jb);
    std::error_code ec;
    jsonpatch::apply_patch(ja, d, ec);
    st.inc("diff_pairs");
    if (ec) return "diff-rejected|apply_patch(a, from_diff(a, b)) reports " + ec.message() + " with diff " + to_m(d).dump().substr(0, 400);
    MVal got = to_m(ja);
    if (!got.equals(b)) return "diff-wrong|apply_patch(a, from_diff(a, b)) gives " + got.dump().substr(0, 300) + " instead of b = " + b.dump().substr(0, 300) + " with diff " + to_m(d).dump().substr(0, 400);
    // the diff is itself a valid RFC 6902 patch: the model must agree
    MVal ma = a; MVal md = to_m(d);
    if (!pm::apply_patch(ma, md) || !ma.equals(b)) return "diff-not-rfc|from_diff(a, b) is not an RFC 6902 patch taking a to b according to the model: " + md.dump().substr(0, 400);
    return "";
}

static void set_fail(Result& res, MVal& plan, const std::string& verdict, const MVal& doc, const MVal* patch, const MVal* doc2) {
    size_t bar = verdict.find('|');
    res.fail("c15." + verdict.substr(0, bar), verdict.substr(bar + 1));
    // narrow to the single failing application
    plan.erase("aborts"); plan.erase("sub");
    plan.set("doc", doc);
    if (patch) { plan.set("mode", MVal::str("single")); plan.set("patch", *patch); }
    if (doc2) { plan.set("mode", MVal::str("diff")); plan.set("doc2", *doc2); plan.erase("patch"); }
}

Result execute(MVal& plan, Stats& st) {
    Result res;
    std::string mode = plan.gets("mode", "single");
    bool ordered = plan.getb("ordered"), use_ec = plan.getb("use_ec");
    if (!plan.has("doc")) { res.cls = "invalid-plan"; return res; }
    MVal doc = *plan.find("doc");
    uint64_t h = fnv1a(doc.dump());
    st.inc("plans");
    try {
        if (mode == "diff") {
            MVal b = plan.has("doc2") ? *plan.find("doc2") : MVal();
            std::string v = ordered ? diff_law<ojson>(doc, b, st) : diff_law<json>(doc, b, st);
            st.nontrivial(mix3(h, fnv1a(b.dump()), ordered));
            if (!v.empty()) set_fail(res, plan, v, doc, nullptr, &b);
            res.hash = h; return res;
        }
        MVal patch = plan.has("patch") ? *plan.find("patch") : MVal::arr();
        // 1. the history as generated
        progress(1);
        std::string v = check_one(doc, patch, ordered, use_ec, st, "history");
        if (!v.empty()) { std::string cls = plan.gets("abort_cls"); set_fail(res, plan, v, doc, &patch, nullptr); if (!cls.empty()) res.cls += "." + cls; return res; }
        if (mode == "single") { res.hash = h; return res; }
        st.inc("history_ops", patch.a.size());
        // a patch that is not an array at all
        {
            MVal notarr = (h & 1) ? MVal::obj() : MVal::str("patch");
            v = check_one(doc, notarr, ordered, use_ec, st, "not_array");
            if (!v.empty()) { set_fail(res, plan, v, doc, &notarr, nullptr); return res; }
        }
        // 2. diff law on (document before, document after the history)
        MVal after = doc;
        if (pm::apply_patch(after, patch)) {
            v = ordered ? diff_law<ojson>(doc, after, st) : diff_law<json>(doc, after, st);
            if (!v.empty()) { set_fail(res, plan, v, doc, nullptr, &after); return res; }
        }
        // 3. abort injected at every position, every failure class
        uint64_t n = 1;
        for (auto& a : plan.geta("aborts")) {
            ++n; progress(n);
            size_t pos = (size_t)a.getu("pos"); const MVal* op = a.find("op");
            if (!op || patch.a.empty()) continue;
            if (const char* skip = getenv("PATCHSIM_SKIP")) { if (strstr(skip, a.gets("cls").c_str())) continue; }  // exploration aid, unset in checks
            pos %= patch.a.size();
            MVal bad = patch; bad.a[pos] = *op;
            v = check_one(doc, bad, ordered, use_ec, st, "abort");
            st.inc("faults.abort_injected"); st.inc("faults.abort." + a.gets("cls"));
            st.nontrivial(mix3(h, pos * 64 + fnv1a(a.gets("cls")) % 64, fnv1a(patch.dump())));
            if (!v.empty()) { std::string cls = a.gets("cls"); set_fail(res, plan, v, doc, &bad, nullptr); res.cls += "." + cls; plan.set("abort_cls", MVal::str(cls)); return res; }
            // also: the failing operation appended after the whole history (abort at the very end)
            if (pos + 1 == patch.a.size()) {
                MVal tail = patch; tail.a.push_back(*op);
                MVal probe = doc;
                v = check_one(doc, tail, ordered, use_ec, st, "abort_tail");
                (void)probe;
                if (!v.empty()) { set_fail(res, plan, v, doc, &tail, nullptr); return res; }
            }
        }
    } catch (const std::exception& e) {
        res.fail("harness:patchsim-exception", std::string(typeid(e).name()) + ": " + e.what());
    }
    res.hash = h;
    return res;
}

} // namespace patchsim

int main(int argc, char** argv) {
    sim::Engine e{"patchsim", patchsim::generate, patchsim::execute};
    return sim::worker_main(argc, argv, e);
}
