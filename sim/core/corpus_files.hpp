// Corpora read from the repository's own test inputs (offline): JSON-Schema-Test-Suite groups,
// JSONPath and JMESPath compliance groups.  Parsed with the independent MVal parser (files that are
// not strict JSON are skipped).  Directory listings are sorted, so the corpus is a pure function of the files.
#pragma once
#include "mini.hpp"
#include <algorithm>
#include <dirent.h>
#include <fstream>
#include <sstream>
#include <string>
#include <vector>

#ifndef SIM_REPO_ROOT
#define SIM_REPO_ROOT "/repo"
#endif

namespace sim { namespace corpus {

struct Files {
    std::vector<MVal> schema_groups;    // {"schema":..., "instances":[...], "src":...}
    std::vector<MVal> jsonpath_groups;  // {"given":..., "exprs":[...]}
    std::vector<MVal> jmespath_groups;  // {"given":..., "exprs":[...]}
    size_t files_read = 0, files_skipped = 0;
};

inline std::vector<std::string> list_json(const std::string& dir) {
    std::vector<std::string> r;
    if (DIR* d = opendir(dir.c_str())) {
        while (dirent* e = readdir(d)) { std::string n = e->d_name; if (n.size() > 5 && n.substr(n.size() - 5) == ".json") r.push_back(dir + "/" + n); }
        closedir(d);
    }
    std::sort(r.begin(), r.end());
    return r;
}
inline bool load(const std::string& path, MVal& out) {
    std::ifstream f(path); if (!f) return false;
    std::stringstream ss; ss << f.rdbuf();
    if (ss.str().size() > 200000) return false;
    try { out = MVal::parse(ss.str()); return true; } catch (...) { return false; }
}

inline const Files& files() {
    static Files* fp = nullptr;
    if (fp) return *fp;
    fp = new Files();
    Files& F = *fp;
    const std::string root = std::string(SIM_REPO_ROOT) + "/test";
    static const struct { const char* dir; const char* id; } drafts[] = {
        {"draft4", "http://json-schema.org/draft-04/schema#"}, {"draft6", "http://json-schema.org/draft-06/schema#"},
        {"draft7", "http://json-schema.org/draft-07/schema#"}, {"draft2019-09", "https://json-schema.org/draft/2019-09/schema"},
        {"draft2020-12", "https://json-schema.org/draft/2020-12/schema"}};
    for (auto& d : drafts) {
        std::vector<std::string> paths;
        for (const char* sub : {"", "/optional", "/optional/format"}) for (auto& q : list_json(root + "/jsonschema/JSON-Schema-Test-Suite/tests/" + d.dir + sub)) paths.push_back(q);
        for (auto& path : paths) {
            MVal doc; if (!load(path, doc) || !doc.is_arr()) { ++F.files_skipped; continue; }
            ++F.files_read;
            for (auto& g : doc.a) {
                const MVal* sch = g.find("schema"); if (!sch) continue;
                std::string text = sch->dump();
                if (text.find("localhost:1234") != std::string::npos || text.find("http://json-schema.org/draft") != std::string::npos && sch->is_obj() && sch->has("$ref")) continue; // needs a remote
                MVal grp = MVal::obj();
                MVal s2 = *sch;
                if (s2.is_obj() && !s2.has("$schema")) { MVal withid = MVal::obj(); withid.set("$schema", MVal::str(d.id)); for (auto& kv : s2.o) withid.o.push_back(kv); s2 = withid; }
                grp.set("schema", s2);
                MVal ins = MVal::arr();
                for (auto& t : g.geta("tests")) if (const MVal* dt = t.find("data")) ins.push(*dt);
                grp.set("instances", ins); grp.set("src", MVal::str(path.substr(root.size())));
                F.schema_groups.push_back(grp);
            }
        }
    }
    auto expr_groups = [&](const std::string& dir, std::vector<MVal>& out) {
        for (auto& path : list_json(dir)) {
            MVal doc; if (!load(path, doc) || !doc.is_arr()) { ++F.files_skipped; continue; }
            ++F.files_read;
            for (auto& g : doc.a) {
                const MVal* given = g.find("given"); if (!given) continue;
                MVal grp = MVal::obj(); grp.set("given", *given);
                MVal ex = MVal::arr();
                for (auto& c : g.geta("cases")) if (c.find("expression") && c.find("expression")->is_str() && !c.has("error")) ex.push(*c.find("expression"));
                if (ex.a.empty()) continue;
                grp.set("exprs", ex);
                out.push_back(grp);
            }
        }
    };
    expr_groups(root + "/jsonpath/input/test_data", F.jsonpath_groups);
    expr_groups(root + "/jmespath/input/compliance", F.jmespath_groups);
    return F;
}

}} // namespace sim::corpus
