// Simulated byte transport: a std::streambuf whose delivery schedule, end of
// file, failures and write capacity are decided by the plan.
#pragma once
#include <cstdint>
#include <cstring>
#include <ios>
#include <streambuf>
#include <string>
#include <vector>

namespace sim {

// Thrown (deliberately not a std::exception, so library catch(std::exception&) blocks cannot absorb it)
// when a decoder keeps reading long after the transport reported end of file.
struct LivenessAbort { uint64_t reads; uint64_t reads_after_eof; };

struct ReadHook { virtual void on_read(uint64_t delivered, uint64_t reads) = 0; virtual ~ReadHook() {} };

class SimStreambuf : public std::streambuf {
    const char* data_; size_t size_; size_t pos_ = 0;
    std::vector<char> area_;           // get area of plan-chosen size
    // faults
    size_t fail_after_ = SIZE_MAX;     // once this many bytes were delivered, the next refill fails
    int fail_kind_ = 0;                // 1 = throw std::ios_base::failure, 2 = throw std::runtime_error, 3 = return eof and stay (short read = premature EOF)
    // limits
    uint64_t max_reads_ = UINT64_MAX; uint64_t max_after_eof_ = UINT64_MAX;
public:
    uint64_t reads = 0, reads_after_eof = 0, delivered = 0, failures_fired = 0;
    bool eof_reported = false;
    ReadHook* hook = nullptr;

    SimStreambuf(const char* data, size_t size, size_t getarea) : data_(data), size_(size), area_(getarea ? getarea : 1) { setg(area_.data(), area_.data(), area_.data()); }
    void fail_after(size_t bytes, int kind) { fail_after_ = bytes; fail_kind_ = kind; }
    void limits(uint64_t max_reads, uint64_t max_after_eof) { max_reads_ = max_reads; max_after_eof_ = max_after_eof; }
protected:
    int_type underflow() override {
        ++reads;
        if (hook) hook->on_read(delivered, reads);
        if (eof_reported) ++reads_after_eof;
        if (reads > max_reads_ || reads_after_eof > max_after_eof_) throw LivenessAbort{reads, reads_after_eof};
        if (delivered >= fail_after_ && fail_kind_) {
            ++failures_fired;
            if (fail_kind_ == 1) throw std::ios_base::failure("simulated stream failure");
            if (fail_kind_ == 2) throw std::runtime_error("simulated transport error");
            eof_reported = true; return traits_type::eof();
        }
        if (pos_ >= size_) { eof_reported = true; return traits_type::eof(); }
        size_t n = size_ - pos_; if (n > area_.size()) n = area_.size();
        if (fail_kind_ && delivered + n > fail_after_) n = fail_after_ - delivered;   // deliver exactly up to the fault point
        if (n == 0) { ++failures_fired; if (fail_kind_ == 1) throw std::ios_base::failure("simulated stream failure"); if (fail_kind_ == 2) throw std::runtime_error("simulated transport error"); eof_reported = true; return traits_type::eof(); }
        std::memcpy(area_.data(), data_ + pos_, n);
        pos_ += n; delivered += n;
        setg(area_.data(), area_.data(), area_.data() + n);
        return traits_type::to_int_type(area_[0]);
    }
};

// Write side: accepts `capacity` bytes, then fails every write (returns eof; optionally throws).
class SimOutbuf : public std::streambuf {
    size_t capacity_; int kind_;
public:
    std::string written; uint64_t failures_fired = 0;
    SimOutbuf(size_t capacity, int kind) : capacity_(capacity), kind_(kind) {}
protected:
    int_type overflow(int_type ch) override {
        if (traits_type::eq_int_type(ch, traits_type::eof())) return traits_type::not_eof(ch);
        if (written.size() >= capacity_) { ++failures_fired; if (kind_ == 2) throw std::runtime_error("simulated sink error"); return traits_type::eof(); }
        written.push_back(traits_type::to_char_type(ch));
        return ch;
    }
    std::streamsize xsputn(const char* s, std::streamsize n) override {
        size_t room = capacity_ > written.size() ? capacity_ - written.size() : 0;      // capacity SIZE_MAX = unlimited
        std::streamsize w = (size_t)n < room ? n : (std::streamsize)room;
        written.append(s, (size_t)w);
        if (w < n) { ++failures_fired; if (kind_ == 2) throw std::runtime_error("simulated sink error"); }
        return w;
    }
};

// Packetised transit with loss, duplication, reordering, corruption and truncation.
// Faults are explicit plan elements: {kind, a, b}.  Interpreted modulo the current size so every plan is valid.
struct ChannelFault { std::string kind; uint64_t a = 0, b = 0; };

inline std::string apply_channel(const std::string& doc, const std::vector<ChannelFault>& faults, uint64_t packet, uint64_t* fired = nullptr) {
    std::string cur = doc;
    if (packet == 0) packet = 8;
    for (auto& f : faults) {
        if (f.kind == "trunc") { if (!cur.empty() || f.a == 0) { size_t t = cur.empty() ? 0 : (size_t)(f.a % (cur.size() + 1)); if (t < cur.size()) { cur.resize(t); if (fired) ++*fired; } } continue; }
        if (cur.empty()) continue;
        if (f.kind == "flip") { size_t i = (size_t)(f.a % cur.size()); cur[i] = (char)(cur[i] ^ (1u << (f.b % 8))); if (fired) ++*fired; continue; }
        if (f.kind == "set") { size_t i = (size_t)(f.a % cur.size()); cur[i] = (char)(f.b & 0xff); if (fired) ++*fired; continue; }
        size_t npk = (cur.size() + packet - 1) / packet;
        size_t p = (size_t)(f.a % npk), q = (size_t)(f.b % npk);
        auto pk = [&](size_t i) { return cur.substr(i * packet, packet); };
        if (f.kind == "drop") { cur.erase(p * packet, packet); if (fired) ++*fired; }
        else if (f.kind == "dup") { cur.insert(p * packet, pk(p)); if (fired) ++*fired; }
        else if (f.kind == "swap" && p != q) {
            if (p > q) std::swap(p, q);
            std::string a = pk(p), b = pk(q);
            std::string out = cur.substr(0, p * packet) + b + cur.substr(p * packet + a.size(), q * packet - (p * packet + a.size())) + a + cur.substr(q * packet + b.size());
            cur = out; if (fired) ++*fired;
        }
        else if (f.kind == "insert") { size_t i = (size_t)(f.a % (cur.size() + 1)); cur.insert(i, 1, (char)(f.b & 0xff)); if (fired) ++*fired; }
    }
    return cur;
}

} // namespace sim
