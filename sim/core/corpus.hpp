// Fixed expression / schema corpora and a bookstore-shaped seeded document, shared by allocsim and threadsim.
#pragma once
#include "mini.hpp"
#include "prng.hpp"

namespace sim { namespace corpus {

static const char* const jsonpaths[] = {
    "$.store.book[*].author", "$..author", "$.store.*", "$.store..price", "$..book[2]", "$..book[-1:]", "$..book[0,1]", "$..book[:2]",
    "$..book[?(@.isbn)]", "$..book[?(@.price<10)]", "$..*", "$.store.book[?(@.price > 8 && @.category == 'fiction')].title",
    "$..book[?(@.author =~ /.*Waugh/)]", "$.store.book[?(length(@.title) > 10)].title", "$..book[?(@.price == max($..book[*].price))].title",
    "$..['bicycle','book']", "$.store.book[1:3:1].title", "$..book[(@.length-1)]", "$.store.book[*]['title','price']",
    "$..book[?(tokenize(@.author,'\\\\s+')[1] == 'Waugh')].title", "$.store.book[?(@.tags[0] == 'a')]^", "$[?(sum($..price) > 10)]", "$[?(@.store)]",
    "$.store.book[?(!@.isbn || @.price >= 8.99)].price", "$..book[?(ceil(@.price) == 9)].price", "$.store.book[?(contains(@.title,'of'))].title",
    "$.store.book[*].tags[*]", "$..[?(@.color == 'red')].price", "$.store.book[?(to_number(@.code) > 100)].code", "$.store[?(length(@.book) > 1)]",
    // the built-ins the corpus did not call before round e (abs, starts_with, ends_with, floor, prod, avg, min, keys, count)
    "$.store.book[?(abs(@.price - 10) < 5)].title", "$.store.book[?(starts_with(@.title,'S'))].title", "$.store.book[?(ends_with(@.author,'s'))].author",
    "$.store.book[?(floor(@.price) >= 8)].price", "$[?(prod($..book[*].price) > 1)]", "$[?(avg($..price) > 5)]", "$..book[?(@.price == min($..book[*].price))].title",
    "$.store[?(length(keys(@)) > 1)]", "$[?(count($..book[*]) > 1)]"
};
static const char* const jmespaths[] = {
    "store.book[*].author", "store.book[?price < `10`].title", "sort_by(store.book, &price)[*].title", "store.book[*].{t: title, p: price}",
    "max_by(store.book, &price).title", "length(store.book)", "store.book[].tags[]", "store.book[0:2].title", "keys(store)", "values(store.bicycle)",
    "join(', ', store.book[*].author)", "store.book[*].price | sum(@)", "store.book[?contains(title, 'of')].title", "to_string(store.bicycle)",
    "map(&to_number(code), store.book)", "store.book[*].[title, price]", "reverse(store.book[*].title)", "avg(store.book[*].price)",
    "not_null(store.missing, store.bicycle.color)", "store.book[?category == 'fiction' && price > `8`] | [0].author", "merge(store.bicycle, {extra: `1`})",
    "type(store)", "starts_with(store.bicycle.color, 'r')", "sort(store.book[*].author)", "store.book[*].tags | [] | length(@)", "abs(`-3`)",
    "store.book[?price > 'a']", "floor(store.book[0].price)", "to_array(store.bicycle.color)", "min_by(store.book, &price).price",
    "ceil(store.book[0].price)", "ends_with(store.bicycle.color, 'd')", "max(store.book[*].price)", "min(store.book[*].author)",
    "store.book[*].to_number(code)", "to_number(store.bicycle.color)", "store.book[*].to_number(isbn)", "sum(store.book[*].to_number(code) | [?@ != null])"
};
struct SchemaCase { const char* schema; const char* inst; };
static const SchemaCase schemas[] = {
    {R"({"type":"object","properties":{"a":{"type":"integer","minimum":1},"b":{"type":"string","pattern":"^[a-z]+$"}},"required":["a"]})", R"({"a":5,"b":"abc"})"},
    {R"({"type":"object","properties":{"a":{"type":"integer","minimum":1},"b":{"type":"string","pattern":"^[a-z]+$"}},"required":["a"]})", R"({"a":0,"b":"ABC","c":[1,2]})"},
    {R"({"$schema":"https://json-schema.org/draft/2020-12/schema","$defs":{"n":{"type":"number","multipleOf":0.5}},"type":"array","items":{"$ref":"#/$defs/n"},"uniqueItems":true,"minItems":1})", R"([1,1.5,2,2])"},
    {R"({"$schema":"https://json-schema.org/draft/2020-12/schema","type":"object","properties":{"x":{"type":"string","format":"date-time"}},"unevaluatedProperties":false,"if":{"required":["y"]},"then":{"properties":{"y":{"const":1}}}})", R"({"x":"2020-01-01T00:00:00Z","y":2,"z":3})"},
    {R"({"$schema":"http://json-schema.org/draft-07/schema#","anyOf":[{"type":"string","maxLength":3},{"type":"integer","enum":[1,2,3]}],"not":{"const":2}})", R"("toolong")"},
    {R"({"$schema":"http://json-schema.org/draft-07/schema#","type":"object","patternProperties":{"^s_":{"type":"string"}},"additionalProperties":{"type":"integer"},"dependencies":{"s_a":["s_b"]}})", R"({"s_a":"x","n":"notint"})"},
    {R"({"$schema":"https://json-schema.org/draft/2019-09/schema","$recursiveAnchor":true,"type":"object","properties":{"child":{"$recursiveRef":"#"},"v":{"type":"integer"}},"unevaluatedProperties":false})", R"({"v":1,"child":{"v":2,"child":{"v":"bad"}}})"},
    {R"({"$schema":"http://json-schema.org/draft-04/schema#","type":"array","items":[{"type":"integer"},{"type":"string"}],"additionalItems":false})", R"([1,"a",true])"},
    {R"({"$schema":"http://json-schema.org/draft-06/schema#","propertyNames":{"maxLength":3},"contains":{"type":"null"},"oneOf":[{"type":"object"},{"type":"array"}]})", R"({"abcd":1})"},
    {R"({"type":"object","properties":{"e":{"type":"string","format":"email"},"u":{"type":"string","format":"uri"},"ip":{"type":"string","format":"ipv4"},"r":{"type":"string","format":"regex"}},"default":{"e":"x"}})", R"({"e":"not an email","u":"http://a/b","ip":"1.2.3.4","r":"["})"},
    {R"({"$schema":"http://json-schema.org/draft-07/schema#","type":"object","properties":{"doc":{"type":"string","contentMediaType":"application/json","contentEncoding":"base64"},"raw":{"type":"string","contentEncoding":"base64"},"txt":{"type":"string","contentMediaType":"application/json"}}})", R"({"doc":"eyJhIjoxfQ==","raw":"bm90IGpzb24=","txt":"{\"a\":1"})"},
    {R"({"$schema":"http://json-schema.org/draft-07/schema#","type":"array","items":{"type":"string","contentMediaType":"application/json","contentEncoding":"base64"}})", R"(["eyJhIjoxfQ==","bm90IGpzb24=","e30=","!!notbase64","W3RydWUsIGZhbHNlLCBudWxsLCAxLjUsICJhIGxvbmdlciBzdHJpbmcgdGhhdCBkb2VzIG5vdCBmaXQgdGhlIHNtYWxsIGJ1ZmZlciJd"])"},
    {R"({"$schema":"https://json-schema.org/draft/2020-12/schema","type":"object","properties":{"d":{"format":"date"},"t":{"format":"time"},"dt":{"format":"date-time"},"h":{"format":"hostname"},"i6":{"format":"ipv6"},"p":{"format":"json-pointer"},"u":{"format":"uri-reference"}},"dependentSchemas":{"d":{"required":["t"]}},"dependentRequired":{"h":["i6"]},"minProperties":1,"maxProperties":6})", R"({"d":"2026-10-05","dt":"2026-10-05T07:00:00+01:00","h":"exa_mple.com","i6":"::1","p":"/a/~2","u":"../x y"})"},
    {R"({"$schema":"https://json-schema.org/draft/2020-12/schema","$id":"https://example.com/tree","$dynamicAnchor":"node","type":"object","properties":{"data":true,"children":{"type":"array","items":{"$dynamicRef":"#node"}}},"unevaluatedProperties":false})", R"({"data":1,"children":[{"data":2,"children":[]},{"data":3,"extra":true}]})"},
    {R"({"$schema":"https://json-schema.org/draft/2019-09/schema","type":"array","prefixItems":[{"type":"integer"}],"items":{"type":"number","exclusiveMinimum":0,"exclusiveMaximum":100},"contains":{"const":7},"minContains":1,"maxContains":2,"unevaluatedItems":false})", R"([7,7,7,150,-1])"},
};
inline MVal store_doc(Rng& r) {
    // A bookstore-shaped document with seeded variation, so the fixed expression corpora select something.
    static const char* titles[] = {"Sayings of the Century", "Sword of Honour", "Moby Dick", "The Lord of the Rings", "A", "Tale of two cities and more"};
    static const char* authors[] = {"Nigel Rees", "Evelyn Waugh", "Herman Melville", "J. R. R. Tolkien", "Anonymous Author With A Long Name"};
    MVal books = MVal::arr();
    size_t n = 1 + r.below(5);
    for (size_t i = 0; i < n; ++i) {
        MVal b = MVal::obj();
        b.set("category", MVal::str(r.coin() ? "fiction" : "reference"));
        b.set("author", MVal::str(r.pick(authors)));
        b.set("title", MVal::str(r.pick(titles)));
        if (r.coin()) b.set("isbn", MVal::str("0-553-21311-3"));
        b.set("price", r.chance(1, 6) ? MVal::integer((int64_t)r.below(30)) : MVal::dbl((double)r.below(3000) / 100.0 + 0.5));
        {   // mostly plain integers; also the other branches of to_number(): negative, decimal, exponent, not a number
            unsigned sel = (unsigned)r.below(8);
            std::string code = std::to_string(r.below(500));
            if (sel == 0) code = "-" + code; else if (sel == 1) code += ".25"; else if (sel == 2) code = "1." + code + "e2"; else if (sel == 3) code = "n/a " + code;
            b.set("code", MVal::str(code));
        }
        MVal tags = MVal::arr(); size_t nt = r.below(4); for (size_t k = 0; k < nt; ++k) tags.push(MVal::str(std::string(1, (char)('a' + r.below(3)))));
        b.set("tags", tags);
        books.push(b);
    }
    MVal bike = MVal::obj(); bike.set("color", MVal::str(r.coin() ? "red" : "a colour with a long name")); bike.set("price", MVal::dbl(19.95));
    MVal store = MVal::obj(); store.set("book", books); store.set("bicycle", bike);
    MVal root = MVal::obj(); root.set("store", store); root.set("expensive", MVal::integer(10));
    return root;
}


constexpr size_t n_jsonpaths = sizeof(jsonpaths) / sizeof(jsonpaths[0]);
constexpr size_t n_jmespaths = sizeof(jmespaths) / sizeof(jmespaths[0]);
constexpr size_t n_schemas = sizeof(schemas) / sizeof(schemas[0]);

}} // namespace sim::corpus
