// Worker glue shared by all engines: batch / dump / serve / replay modes and
// the line protocol the Python driver (run.py) speaks.
//
//   B <idx> <sub>      about to execute run idx (sub = engine-defined sub-step, e.g. allocation index)
//   V <idx> <json>     run idx ended in a violation (json: class, detail, plan)
//   H <idx> <hash>     per-run outcome hash (only with --hashes)
//   S <json>           counters since last S line (deltas)
//   D <hex> <hex> ...  hashes of distinct non-trivial cases since last D line
//   X <json>           a sample plan
//   E                  batch finished
//   P <json>           (serve mode) narrowed explicit plan, published before a risky execution
//   R <json>           (serve mode) result of one plan
#pragma once
#include "mini.hpp"
#include "prng.hpp"
#include <map>
#include <set>
#include <string>
#include <vector>
#include <cstdio>
#include <unistd.h>

namespace sim {

struct Result {
    bool ok = true;
    std::string cls;      // violation class: stable identity used by shrinking and known-findings matching
    std::string detail;   // human readable
    uint64_t hash = 0;    // hash of the observable outcome of the run (determinism diff)
    void fail(const std::string& c, const std::string& d) { if (ok) { ok = false; cls = c; detail = d; } }
};

struct Stats {
    std::map<std::string, uint64_t> c;
    std::set<uint64_t> distinct;
    std::vector<std::string> samples;
    void inc(const std::string& k, uint64_t n = 1) { c[k] += n; }
    void maxi(const std::string& k, uint64_t v) { auto& r = c["max." + k]; if (v > r) r = v; }
    void nontrivial(uint64_t h) { distinct.insert(h); }
};

struct Engine {
    const char* name;
    // Build the plan of run idx from (profile, seed, idx).  Pure function of its arguments.
    MVal (*generate)(const std::string& profile, uint64_t seed, uint64_t idx);
    // Execute a plan.  Pure function of the plan and the code under test.  May narrow the
    // plan in place to the concrete failing element (e.g. a sweep -> one delivery).
    Result (*execute)(MVal& plan, Stats& st);
    // Execute every plan in a forked child (fresh process state for each run: cold function-local statics,
    // no history).  Used by threadsim, where first-use static initialisation is part of what is explored.
    bool fork_per_run = false;
};

// Progress marker for crash attribution (async-signal-safe write).
void progress(uint64_t sub);
uint64_t current_idx();
// Publish a narrowed, explicit form of the plan being executed (serve mode: used by the driver when the run crashes).
void publish_plan(const MVal& plan);

int worker_main(int argc, char** argv, const Engine& eng);

} // namespace sim
