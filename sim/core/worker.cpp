#include "worker.hpp"
#include <cstdlib>
#include <cstring>
#include <csignal>
#include <exception>
#include <fstream>
#include <iostream>
#include <sstream>
#include <execinfo.h>
#include <sys/wait.h>

#if defined(__has_feature)
#  if __has_feature(address_sanitizer)
#    define SIM_ASAN 1
#  endif
#  if __has_feature(thread_sanitizer)
#    define SIM_TSAN 1
#  endif
#endif
#if defined(__SANITIZE_ADDRESS__)
#  define SIM_ASAN 1
#endif

extern "C" void __sanitizer_print_stack_trace(void) __attribute__((weak));

#if defined(SIM_ASAN)
extern "C" __attribute__((used, visibility("default"))) const char* __asan_default_options() {
    return "exitcode=77:detect_leaks=0:abort_on_error=0:allocator_may_return_null=1:detect_stack_use_after_return=0:handle_abort=0:symbolize=1";
}
extern "C" __attribute__((used, visibility("default"))) const char* __ubsan_default_options() {
    return "print_stacktrace=1:halt_on_error=1:exitcode=76";
}
#endif

#if defined(SIM_TSAN)
// libstdc++'s std::ctype<char>::narrow()/widen() fill a per-facet cache lazily and without synchronisation
// (GCC PR 77704: every thread writes the same value).  The racing accesses are inside libstdc++, on a
// libstdc++ global, reached here through std::regex construction; they say nothing about jsoncons.
extern "C" __attribute__((used, visibility("default"))) const char* __tsan_default_suppressions() {
    return "race:std::ctype<char>::narrow\nrace:std::ctype<char>::widen\nrace:std::ctype<char>::_M_narrow_init\nrace:std::ctype<char>::_M_widen_init\n";
}
extern "C" __attribute__((used, visibility("default"))) const char* __tsan_default_options() {
    return "halt_on_error=1:exitcode=66:second_deadlock_stack=1:report_signal_unsafe=0:history_size=4";
}
#endif

namespace sim {

static uint64_t g_idx = 0;
static uint64_t g_sub = 0;
static bool g_quiet_progress = false;

static void put(const char* s, size_t n) { while (n) { ssize_t w = ::write(1, s, n); if (w <= 0) return; s += w; n -= (size_t)w; } }
static void putline(const std::string& s) { put(s.data(), s.size()); }

static size_t fmt_u64(char* buf, uint64_t v) { char t[24]; int n = 0; do { t[n++] = (char)('0' + v % 10); v /= 10; } while (v); for (int i = 0; i < n; ++i) buf[i] = t[n - 1 - i]; return (size_t)n; }

void progress(uint64_t sub) {
    g_sub = sub;
    if (g_quiet_progress) return;
    char buf[64]; size_t n = 0;
    buf[n++] = 'B'; buf[n++] = ' ';
    n += fmt_u64(buf + n, g_idx); buf[n++] = ' ';
    n += fmt_u64(buf + n, sub); buf[n++] = '\n';
    put(buf, n);
}
uint64_t current_idx() { return g_idx; }
static bool g_serving = false;
void publish_plan(const MVal& plan) { if (g_serving) putline("P " + plan.dump() + "\n"); }

static void on_terminate() {
    char buf[80]; size_t n = 0;
    buf[n++] = 'T'; buf[n++] = ' ';
    n += fmt_u64(buf + n, g_idx); buf[n++] = ' ';
    n += fmt_u64(buf + n, g_sub); buf[n++] = '\n';
    put(buf, n);
    static const char m[] = "SIM-TERMINATE: std::terminate called\n";
    (void)!::write(2, m, sizeof m - 1);
    if (__sanitizer_print_stack_trace) __sanitizer_print_stack_trace();
    else { void* fr[48]; int k = backtrace(fr, 48); backtrace_symbols_fd(fr, k, 2); }
    _exit(78);
}

#if !defined(SIM_ASAN) && !defined(SIM_TSAN)
static void on_segv(int) {
    static const char m[] = "SIM-SEGV: segmentation fault (stack guard page or wild access)\n";
    (void)!::write(2, m, sizeof m - 1);
    _exit(79);
}
#endif

static void emit_stats(Stats& st) {
    if (!st.c.empty()) {
        MVal o = MVal::obj();
        for (auto& kv : st.c) o.set(kv.first, MVal::uinteger(kv.second));
        putline("S " + o.dump() + "\n");
        st.c.clear();
    }
    if (!st.distinct.empty()) {
        std::string l = "D";
        char b[24];
        for (uint64_t h : st.distinct) { snprintf(b, sizeof b, " %llx", (unsigned long long)h); l += b; }
        l += "\n";
        putline(l);
        st.distinct.clear();
    }
    for (auto& s : st.samples) putline("X " + s + "\n");
    st.samples.clear();
}

static MVal result_json(const Result& r, const MVal& plan) {
    MVal o = MVal::obj();
    o.set("ok", MVal::boolean(r.ok));
    o.set("class", MVal::str(r.cls));
    o.set("detail", MVal::str(r.detail));
    o.set("hash", MVal::uinteger(r.hash));
    o.set("plan", plan);
    return o;
}

int worker_main(int argc, char** argv, const Engine& eng) {
    std::set_terminate(on_terminate);
#if !defined(SIM_ASAN) && !defined(SIM_TSAN)
    {
        static char altstack[1 << 16];
        stack_t ss; ss.ss_sp = altstack; ss.ss_size = sizeof altstack; ss.ss_flags = 0;
        sigaltstack(&ss, nullptr);
        struct sigaction sa; memset(&sa, 0, sizeof sa);
        sa.sa_handler = on_segv; sa.sa_flags = SA_ONSTACK;
        sigaction(SIGSEGV, &sa, nullptr);
        sigaction(SIGBUS, &sa, nullptr);
    }
#endif
    { void* fr[4]; backtrace(fr, 4); } // force libgcc load outside any measured region
    if (argc < 2) { fprintf(stderr, "usage: %s batch|dump|serve|replay ...\n", argv[0]); return 2; }
    std::string mode = argv[1];
    if (mode == "batch") {
        // batch <profile> <seed> <start> <stride> <count> [--hashes] [--resume-sub n]
        if (argc < 7) return 2;
        std::string profile = argv[2];
        uint64_t seed = strtoull(argv[3], nullptr, 10), start = strtoull(argv[4], nullptr, 10),
                 stride = strtoull(argv[5], nullptr, 10), count = strtoull(argv[6], nullptr, 10);
        bool hashes = false; uint64_t resume_sub = 0;
        for (int i = 7; i < argc; ++i) {
            if (!strcmp(argv[i], "--hashes")) hashes = true;
            else if (!strcmp(argv[i], "--resume-sub") && i + 1 < argc) resume_sub = strtoull(argv[++i], nullptr, 10);
        }
        Stats st;
        for (uint64_t k = 0; k < count; ++k) {
            g_idx = start + k * stride;
            progress(0);
            MVal plan = eng.generate(profile, seed, g_idx);
            if (k == 0 && resume_sub) plan.set("resume_sub", MVal::uinteger(resume_sub));
            if (k < 2 && !resume_sub) { std::string s = plan.dump(); if (s.size() < 4000) st.samples.push_back(s); }
            pid_t child = 0;
            if (eng.fork_per_run) {
                emit_stats(st);
                child = fork();
                if (child > 0) {
                    int status = 0; waitpid(child, &status, 0);
                    if (!(WIFEXITED(status) && WEXITSTATUS(status) == 0)) _exit(WIFEXITED(status) ? WEXITSTATUS(status) : 128 + WTERMSIG(status));
                    continue;
                }
            }
            Result r = eng.execute(plan, st);
            st.inc("runs");
            if (!r.ok) {
                plan.erase("resume_sub");
                putline("V " + std::to_string(g_idx) + " " + result_json(r, plan).dump() + "\n");
            }
            if (hashes) { char b[64]; snprintf(b, sizeof b, "H %llu %llx\n", (unsigned long long)g_idx, (unsigned long long)r.hash); putline(b); }
            if (eng.fork_per_run && child == 0) { emit_stats(st); _exit(0); }
            if ((k & 63) == 63) emit_stats(st);
        }
        emit_stats(st);
        putline("E\n");
        return 0;
    }
    if (mode == "dump") {
        if (argc < 5) return 2;
        MVal plan = eng.generate(argv[2], strtoull(argv[3], nullptr, 10), strtoull(argv[4], nullptr, 10));
        putline(plan.dump() + "\n");
        return 0;
    }
    if (mode == "serve") {
        g_serving = true;
        std::string line;
        Stats st;
        while (std::getline(std::cin, line)) {
            if (line.empty()) continue;
            MVal plan;
            try { plan = MVal::parse(line); } catch (std::exception& e) { putline("R {\"ok\":true,\"class\":\"invalid-plan\",\"detail\":\"\",\"hash\":0}\n"); continue; }
            g_idx = 0;
            progress(0);
            if (eng.fork_per_run) {
                pid_t child = fork();
                if (child > 0) {
                    int status = 0; waitpid(child, &status, 0);
                    if (!(WIFEXITED(status) && WEXITSTATUS(status) == 0)) _exit(WIFEXITED(status) ? WEXITSTATUS(status) : 128 + WTERMSIG(status));
                    continue;
                }
                Result r = eng.execute(plan, st);
                putline("R " + result_json(r, plan).dump() + "\n");
                _exit(0);
            }
            Result r = eng.execute(plan, st);
            st.c.clear(); st.distinct.clear(); st.samples.clear();
            putline("R " + result_json(r, plan).dump() + "\n");
        }
        return 0;
    }
    if (mode == "replay") {
        g_serving = true;
        if (argc < 3) return 2;
        std::ifstream f(argv[2]);
        std::stringstream ss; ss << f.rdbuf();
        MVal file = MVal::parse(ss.str());
        MVal plan = file.has("plan") ? *file.find("plan") : file;
        Stats st;
        g_idx = 0;
        progress(0);
        Result r = eng.execute(plan, st);
        putline("R " + result_json(r, plan).dump() + "\n");
        return r.ok ? 0 : 1;
    }
    return 2;
}

} // namespace sim
