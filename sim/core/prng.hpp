// Seeded PRNG: the only source of randomness in any engine.  Used only to
// *generate plans*; executing a plan never draws from it.
#pragma once
#include <cstdint>
#include <cstddef>
#include <string>
#include <vector>

namespace sim {

inline uint64_t splitmix64(uint64_t& x) {
    uint64_t z = (x += 0x9e3779b97f4a7c15ULL);
    z = (z ^ (z >> 30)) * 0xbf58476d1ce4e5b9ULL;
    z = (z ^ (z >> 27)) * 0x94d049bb133111ebULL;
    return z ^ (z >> 31);
}

inline uint64_t mix3(uint64_t a, uint64_t b, uint64_t c) {
    uint64_t s = a ^ 0x6a09e667f3bcc909ULL;
    uint64_t r = splitmix64(s);
    s ^= b * 0x9e3779b97f4a7c15ULL; r ^= splitmix64(s);
    s ^= c * 0xc2b2ae3d27d4eb4fULL; r ^= splitmix64(s);
    return r;
}

inline uint64_t fnv1a(const void* p, size_t n, uint64_t h = 1469598103934665603ULL) {
    const unsigned char* s = static_cast<const unsigned char*>(p);
    for (size_t i = 0; i < n; ++i) { h ^= s[i]; h *= 1099511628211ULL; }
    return h;
}
inline uint64_t fnv1a(const std::string& s, uint64_t h = 1469598103934665603ULL) { return fnv1a(s.data(), s.size(), h); }

class Rng {
    uint64_t s_[4];
    static uint64_t rotl(uint64_t x, int k) { return (x << k) | (x >> (64 - k)); }
public:
    explicit Rng(uint64_t seed) { uint64_t x = seed; for (auto& v : s_) v = splitmix64(x); }
    uint64_t next() {
        uint64_t r = rotl(s_[1] * 5, 7) * 9, t = s_[1] << 17;
        s_[2] ^= s_[0]; s_[3] ^= s_[1]; s_[1] ^= s_[2]; s_[0] ^= s_[3]; s_[2] ^= t; s_[3] = rotl(s_[3], 45);
        return r;
    }
    // uniform in [0, n)
    uint64_t below(uint64_t n) { return n ? next() % n : 0; }
    // uniform in [lo, hi]
    int64_t range(int64_t lo, int64_t hi) { return lo + (int64_t)below((uint64_t)(hi - lo + 1)); }
    bool chance(unsigned num, unsigned den) { return below(den) < num; }
    bool coin() { return next() & 1; }
    template <class T> const T& pick(const std::vector<T>& v) { return v[below(v.size())]; }
    template <class T, size_t N> const T& pick(const T (&a)[N]) { return a[below(N)]; }
};

} // namespace sim
