// Seeded generator of JSON-model values (as MVal) used by all engines as workload.
#pragma once
#include "mini.hpp"
#include "prng.hpp"
#include <cmath>

namespace sim {

struct GenOpts {
    int max_depth = 4;
    int max_width = 5;
    bool hostile_keys = false;   // "", "~", "/", "a/b", "0", "-", non-ASCII
    bool doubles = true;
    bool big = false;            // huge integers / long strings
    bool unicode = true;
    bool root_container = true;
};

inline std::string gen_string(Rng& r, const GenOpts& o, bool key) {
    static const char* hostile[] = {"", "~", "/", "a/b", "0", "1", "-", "~0", "~1", "m~n", "\xc3\xa9", "k\"q", "b\\s", " ", "01"};
    static const char* plain[] = {"a", "b", "c", "id", "name", "x", "y", "key", "val", "foo", "bar", "items", "n", "type"};
    if (key && o.hostile_keys && r.chance(1, 3)) return r.pick(hostile);
    unsigned sel = (unsigned)r.below(10);
    if (sel < 4) return r.pick(plain);
    std::string s;
    size_t len;
    if (sel < 7) len = (size_t)r.below(8);                       // short (inline storage)
    else if (sel < 9) len = 14 + (size_t)r.below(30);            // long (heap storage)
    else len = o.big ? 200 + (size_t)r.below(400) : 40 + (size_t)r.below(40);
    for (size_t i = 0; i < len; ++i) {
        unsigned c = (unsigned)r.below(40);
        if (c < 26) s.push_back((char)('a' + c));
        else if (c < 30) s.push_back((char)('0' + (c - 26)));
        else if (c == 30) s.push_back(' ');
        else if (c == 31) s.push_back('"');
        else if (c == 32) s.push_back('\\');
        else if (c == 33) s.push_back('/');
        else if (c == 34) s.push_back('\n');
        else if (c == 35) s.push_back('\t');
        else if (c == 36 && o.unicode) s += "\xc3\xa9";          // U+00E9
        else if (c == 37 && o.unicode) s += "\xe2\x82\xac";      // U+20AC
        else if (c == 38 && o.unicode) s += "\xf0\x9f\x98\x80";  // U+1F600
        else if (c == 39) s.push_back((char)(1 + r.below(31)));  // control char
        else s.push_back('z');
    }
    return s;
}

inline MVal gen_scalar(Rng& r, const GenOpts& o) {
    static const int64_t ints[] = {0, 1, -1, 2, 7, 10, 23, 24, 255, 256, -128, -129, 65535, 65536, 2147483647LL, -2147483648LL,
                                   4294967295LL, 4294967296LL, INT64_MAX, INT64_MIN, 1000000007LL, -42};
    static const double dbls[] = {0.5, -0.5, 1.5, 3.25, 1e10, 1.0e-5, 123.456, -2.75, 6.02e23, 1e300, 2.2250738585072014e-308, 0.1, 2.0, -7.0, 100.0};
    unsigned sel = (unsigned)r.below(12);
    switch (sel) {
    case 0: return MVal();
    case 1: return MVal::boolean(true);
    case 2: return MVal::boolean(false);
    case 3: case 4: return MVal::integer(r.pick(ints));
    case 5: return MVal::integer((int64_t)r.below(1000) - 500);
    case 6: if (r.coin()) return MVal::uinteger(UINT64_MAX - r.below(3)); return MVal::integer((int64_t)r.next());
    case 7: if (o.doubles) return MVal::dbl(r.pick(dbls)); return MVal::integer((int64_t)r.below(100));
    default: return MVal::str(gen_string(r, o, false));
    }
}

inline MVal gen_value(Rng& r, const GenOpts& o, int depth = 0) {
    bool container = depth < o.max_depth && (depth == 0 ? o.root_container || r.chance(4, 5) : r.chance(2, 5));
    if (!container) return gen_scalar(r, o);
    int width = (int)r.below((uint64_t)o.max_width + 1);
    if (r.coin()) {
        MVal a = MVal::arr();
        for (int i = 0; i < width; ++i) a.a.push_back(gen_value(r, o, depth + 1));
        return a;
    }
    MVal m = MVal::obj();
    for (int i = 0; i < width; ++i) {
        std::string k = gen_string(r, o, true);
        if (m.has(k)) continue;
        m.o.emplace_back(k, gen_value(r, o, depth + 1));
    }
    return m;
}

} // namespace sim
