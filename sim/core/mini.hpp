// MVal: a small JSON value type with its own parser and printer, independent
// of jsoncons.  Used (a) for plan / replay files and result lines, (b) as the
// value domain of the RFC 6902 reference model in patchsim.
#pragma once
#include <cstdint>
#include <cstdio>
#include <cerrno>
#include <cstdlib>
#include <cstring>
#include <stdexcept>
#include <string>
#include <utility>
#include <vector>
#include <algorithm>

namespace sim {

struct MVal {
    enum K { Null, Bool, Int, UInt, Dbl, Str, Arr, Obj } k = Null;
    bool b = false;
    int64_t i = 0;
    uint64_t u = 0;
    double d = 0;
    std::string s;
    std::vector<MVal> a;
    std::vector<std::pair<std::string, MVal>> o;

    MVal() {}
    static MVal null() { return MVal(); }
    static MVal boolean(bool v) { MVal m; m.k = Bool; m.b = v; return m; }
    static MVal integer(int64_t v) { MVal m; m.k = Int; m.i = v; return m; }
    static MVal uinteger(uint64_t v) { MVal m; if (v <= (uint64_t)INT64_MAX) { m.k = Int; m.i = (int64_t)v; } else { m.k = UInt; m.u = v; } return m; }
    static MVal dbl(double v) { MVal m; m.k = Dbl; m.d = v; return m; }
    static MVal str(std::string v) { MVal m; m.k = Str; m.s = std::move(v); return m; }
    static MVal arr() { MVal m; m.k = Arr; return m; }
    static MVal obj() { MVal m; m.k = Obj; return m; }

    bool is_null() const { return k == Null; }
    bool is_arr() const { return k == Arr; }
    bool is_obj() const { return k == Obj; }
    bool is_str() const { return k == Str; }
    bool is_int() const { return k == Int || k == UInt; }

    // object access
    const MVal* find(const std::string& key) const {
        for (auto& kv : o) if (kv.first == key) return &kv.second;
        return nullptr;
    }
    MVal* find(const std::string& key) {
        for (auto& kv : o) if (kv.first == key) return &kv.second;
        return nullptr;
    }
    bool has(const std::string& key) const { return find(key) != nullptr; }
    MVal& set(const std::string& key, MVal v) {
        if (k != Obj) { *this = obj(); }
        if (MVal* p = find(key)) { *p = std::move(v); return *p; }
        o.emplace_back(key, std::move(v));
        return o.back().second;
    }
    bool erase(const std::string& key) {
        for (size_t j = 0; j < o.size(); ++j) if (o[j].first == key) { o.erase(o.begin() + j); return true; }
        return false;
    }
    MVal& push(MVal v) { if (k != Arr) *this = arr(); a.push_back(std::move(v)); return a.back(); }

    int64_t geti(const std::string& key, int64_t dflt = 0) const {
        const MVal* p = find(key);
        if (!p) return dflt;
        if (p->k == Int) return p->i;
        if (p->k == UInt) return (int64_t)p->u;
        if (p->k == Bool) return p->b;
        if (p->k == Dbl) return (int64_t)p->d;
        return dflt;
    }
    uint64_t getu(const std::string& key, uint64_t dflt = 0) const {
        const MVal* p = find(key);
        if (!p) return dflt;
        if (p->k == Int) return (uint64_t)p->i;
        if (p->k == UInt) return p->u;
        if (p->k == Bool) return p->b;
        return dflt;
    }
    std::string gets(const std::string& key, const std::string& dflt = "") const {
        const MVal* p = find(key);
        return (p && p->k == Str) ? p->s : dflt;
    }
    bool getb(const std::string& key, bool dflt = false) const {
        const MVal* p = find(key);
        if (!p) return dflt;
        if (p->k == Bool) return p->b;
        if (p->k == Int) return p->i != 0;
        return dflt;
    }
    const std::vector<MVal>& geta(const std::string& key) const {
        static const std::vector<MVal> empty;
        const MVal* p = find(key);
        return (p && p->k == Arr) ? p->a : empty;
    }

    // JSON-value equality: objects as unordered maps, numbers by value.
    bool equals(const MVal& r) const {
        if (is_int() && r.is_int()) {
            if (k == r.k) return k == Int ? i == r.i : u == r.u;
            return false; // Int holds <= INT64_MAX, UInt holds > INT64_MAX
        }
        if ((k == Dbl && r.is_int()) || (is_int() && r.k == Dbl)) {
            double x = k == Dbl ? d : (k == Int ? (double)i : (double)u);
            double y = r.k == Dbl ? r.d : (r.k == Int ? (double)r.i : (double)r.u);
            return x == y;
        }
        if (k != r.k) return false;
        switch (k) {
        case Null: return true;
        case Bool: return b == r.b;
        case Dbl: return d == r.d;
        case Str: return s == r.s;
        case Arr:
            if (a.size() != r.a.size()) return false;
            for (size_t j = 0; j < a.size(); ++j) if (!a[j].equals(r.a[j])) return false;
            return true;
        case Obj:
            if (o.size() != r.o.size()) return false;
            for (auto& kv : o) { const MVal* p = r.find(kv.first); if (!p || !kv.second.equals(*p)) return false; }
            return true;
        default: return false;
        }
    }

    static void esc(std::string& out, const std::string& s) {
        out.push_back('"');
        for (unsigned char c : s) {
            switch (c) {
            case '"': out += "\\\""; break;
            case '\\': out += "\\\\"; break;
            case '\n': out += "\\n"; break;
            case '\r': out += "\\r"; break;
            case '\t': out += "\\t"; break;
            case '\b': out += "\\b"; break;
            case '\f': out += "\\f"; break;
            default:
                if (c < 0x20) { char buf[8]; snprintf(buf, sizeof buf, "\\u%04x", c); out += buf; }
                else out.push_back((char)c);
            }
        }
        out.push_back('"');
    }
    void dump(std::string& out) const {
        char buf[40];
        switch (k) {
        case Null: out += "null"; break;
        case Bool: out += b ? "true" : "false"; break;
        case Int: snprintf(buf, sizeof buf, "%lld", (long long)i); out += buf; break;
        case UInt: snprintf(buf, sizeof buf, "%llu", (unsigned long long)u); out += buf; break;
        case Dbl: {
            snprintf(buf, sizeof buf, "%.17g", d);
            out += buf;
            if (!strpbrk(buf, ".eEni")) out += ".0";
            break;
        }
        case Str: esc(out, s); break;
        case Arr:
            out.push_back('[');
            for (size_t j = 0; j < a.size(); ++j) { if (j) out.push_back(','); a[j].dump(out); }
            out.push_back(']');
            break;
        case Obj:
            out.push_back('{');
            for (size_t j = 0; j < o.size(); ++j) { if (j) out.push_back(','); esc(out, o[j].first); out.push_back(':'); o[j].second.dump(out); }
            out.push_back('}');
            break;
        }
    }
    std::string dump() const { std::string r; dump(r); return r; }

    // ---- parser (strict JSON; throws std::runtime_error) ----
    struct P {
        const char* p; const char* e;
        [[noreturn]] void fail(const char* m) { throw std::runtime_error(std::string("mini-json: ") + m); }
        void ws() { while (p < e && (*p == ' ' || *p == '\n' || *p == '\r' || *p == '\t')) ++p; }
        static void utf8(std::string& out, uint32_t cp) {
            if (cp < 0x80) out.push_back((char)cp);
            else if (cp < 0x800) { out.push_back((char)(0xC0 | (cp >> 6))); out.push_back((char)(0x80 | (cp & 0x3F))); }
            else if (cp < 0x10000) { out.push_back((char)(0xE0 | (cp >> 12))); out.push_back((char)(0x80 | ((cp >> 6) & 0x3F))); out.push_back((char)(0x80 | (cp & 0x3F))); }
            else { out.push_back((char)(0xF0 | (cp >> 18))); out.push_back((char)(0x80 | ((cp >> 12) & 0x3F))); out.push_back((char)(0x80 | ((cp >> 6) & 0x3F))); out.push_back((char)(0x80 | (cp & 0x3F))); }
        }
        uint32_t hex4() {
            if (e - p < 4) fail("short \\u");
            uint32_t v = 0;
            for (int j = 0; j < 4; ++j) {
                char c = *p++; v <<= 4;
                if (c >= '0' && c <= '9') v |= c - '0'; else if (c >= 'a' && c <= 'f') v |= c - 'a' + 10; else if (c >= 'A' && c <= 'F') v |= c - 'A' + 10; else fail("bad hex");
            }
            return v;
        }
        std::string str() {
            std::string out;
            ++p;
            for (;;) {
                if (p >= e) fail("unterminated string");
                unsigned char c = (unsigned char)*p++;
                if (c == '"') break;
                if (c == '\\') {
                    if (p >= e) fail("bad escape");
                    char x = *p++;
                    switch (x) {
                    case '"': out.push_back('"'); break; case '\\': out.push_back('\\'); break; case '/': out.push_back('/'); break;
                    case 'b': out.push_back('\b'); break; case 'f': out.push_back('\f'); break; case 'n': out.push_back('\n'); break;
                    case 'r': out.push_back('\r'); break; case 't': out.push_back('\t'); break;
                    case 'u': {
                        uint32_t cp = hex4();
                        if (cp >= 0xD800 && cp < 0xDC00 && e - p >= 6 && p[0] == '\\' && p[1] == 'u') {
                            const char* save = p; p += 2; uint32_t lo = hex4();
                            if (lo >= 0xDC00 && lo < 0xE000) cp = 0x10000 + ((cp - 0xD800) << 10) + (lo - 0xDC00); else p = save;
                        }
                        utf8(out, cp);
                        break;
                    }
                    default: fail("bad escape");
                    }
                } else out.push_back((char)c);
            }
            return out;
        }
        MVal val(int depth) {
            if (depth > 2000) fail("too deep");
            ws();
            if (p >= e) fail("eof");
            char c = *p;
            if (c == '{') {
                MVal m = MVal::obj(); ++p; ws();
                if (p < e && *p == '}') { ++p; return m; }
                for (;;) {
                    ws(); if (p >= e || *p != '"') fail("key expected");
                    std::string key = str(); ws();
                    if (p >= e || *p != ':') fail("colon expected");
                    ++p;
                    MVal v = val(depth + 1);
                    m.o.emplace_back(std::move(key), std::move(v));
                    ws(); if (p >= e) fail("eof");
                    if (*p == ',') { ++p; continue; }
                    if (*p == '}') { ++p; return m; }
                    fail("comma expected");
                }
            }
            if (c == '[') {
                MVal m = MVal::arr(); ++p; ws();
                if (p < e && *p == ']') { ++p; return m; }
                for (;;) {
                    m.a.push_back(val(depth + 1));
                    ws(); if (p >= e) fail("eof");
                    if (*p == ',') { ++p; continue; }
                    if (*p == ']') { ++p; return m; }
                    fail("comma expected");
                }
            }
            if (c == '"') return MVal::str(str());
            if (e - p >= 4 && !memcmp(p, "null", 4)) { p += 4; return MVal(); }
            if (e - p >= 4 && !memcmp(p, "true", 4)) { p += 4; return MVal::boolean(true); }
            if (e - p >= 5 && !memcmp(p, "false", 5)) { p += 5; return MVal::boolean(false); }
            if (c == '-' || (c >= '0' && c <= '9')) {
                const char* s0 = p; bool isd = false;
                if (*p == '-') ++p;
                while (p < e && ((*p >= '0' && *p <= '9') || *p == '.' || *p == 'e' || *p == 'E' || *p == '+' || *p == '-')) { if (*p == '.' || *p == 'e' || *p == 'E') isd = true; ++p; }
                std::string t(s0, p);
                if (!isd) {
                    errno = 0;
                    if (t[0] == '-') { long long v = strtoll(t.c_str(), nullptr, 10); if (errno == 0) return MVal::integer(v); }
                    else { unsigned long long v = strtoull(t.c_str(), nullptr, 10); if (errno == 0) return MVal::uinteger(v); }
                }
                return MVal::dbl(strtod(t.c_str(), nullptr));
            }
            fail("unexpected character");
        }
    };
    static MVal parse(const std::string& text) {
        P ps{text.data(), text.data() + text.size()};
        MVal v = ps.val(0);
        ps.ws();
        if (ps.p != ps.e) ps.fail("trailing characters");
        return v;
    }
};

// Plans carry documents as embedded JSON values (so that structural shrinking applies to them);
// "<key>_text" overrides with raw text when the exact bytes matter.
inline std::string plan_text(const MVal& plan, const std::string& key) {
    if (const MVal* t = plan.find(key + "_text")) if (t->k == MVal::Str) return t->s;
    const MVal* v = plan.find(key);
    return v ? v->dump() : std::string();
}

inline std::string to_hex(const std::string& s) {
    static const char* d = "0123456789abcdef";
    std::string r; r.reserve(s.size() * 2);
    for (unsigned char c : s) { r.push_back(d[c >> 4]); r.push_back(d[c & 15]); }
    return r;
}
inline std::string from_hex(const std::string& h) {
    auto v = [](char c) -> int { if (c >= '0' && c <= '9') return c - '0'; if (c >= 'a' && c <= 'f') return c - 'a' + 10; if (c >= 'A' && c <= 'F') return c - 'A' + 10; return 0; };
    std::string r; r.reserve(h.size() / 2);
    for (size_t j = 0; j + 1 < h.size(); j += 2) r.push_back((char)(v(h[j]) * 16 + v(h[j + 1])));
    return r;
}

} // namespace sim
