// Allocation ledger: link-time replacement of global operator new/delete.
// Counts, meters, registers every block, and can fail exactly the n-th
// allocation after arming (single shot), which is the fault model of C19.
#pragma once
#include <cstdint>
#include <cstddef>

namespace sim { namespace ledger {

struct Snapshot { uint64_t count, live_blocks, live_bytes; };

uint64_t count();          // allocations performed since process start
uint64_t live_blocks();
uint64_t live_bytes();
uint64_t peak_bytes();     // high-water mark since last reset_peak()
void reset_peak();
Snapshot snap();

void arm(uint64_t nth);    // fail the nth allocation from now (1-based); nth==0 disarms
void disarm();
bool fired();              // the armed failure has been delivered
uint64_t fired_index();    // absolute index of failed allocation

// Persistent limit: fail every allocation that would push live_bytes above cap (0 = off).
void set_cap(uint64_t cap_bytes);
uint64_t cap_hits();

// Per-allocation site recording (count runs only).
void record_sites(bool on);            // clears and starts/stops recording
uint64_t site_count();                 // number recorded
uint64_t site_hash(uint64_t i);        // hash of innermost frames for i-th recorded allocation
int site_frames(uint64_t i, void** out, int max);
// Innermost (up to max_frames, distinct, joined by <-) frames of allocation i whose function lies in namespace jsoncons (template arguments stripped); needs a sanitizer runtime.
const char* site_name(uint64_t i, int max_frames = 3);

// Blocks allocated after `mark` (an absolute count()) that are still live.
uint64_t leaked_since(uint64_t mark, uint64_t* first_index = nullptr, uint64_t* bytes = nullptr);
// Integrity: returns number of sized-delete mismatches / bad frees observed so far.
uint64_t size_mismatches();
uint64_t bad_frees();

}} // namespace sim::ledger
