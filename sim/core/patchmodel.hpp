// Reference model of RFC 6902 (JSON Patch) over MVal with its own RFC 6901
// pointer parser.  Written from the RFCs; uses nothing from jsoncons.
#pragma once
#include "mini.hpp"
#include "prng.hpp"
#include "gen.hpp"
#include <string>
#include <vector>

namespace sim { namespace pm {

struct Ptr { bool ok = true; std::vector<std::string> tok; };

inline Ptr parse_ptr(const std::string& s) {
    Ptr p;
    if (s.empty()) return p;
    if (s[0] != '/') { p.ok = false; return p; }
    std::string cur;
    for (size_t i = 1; i <= s.size(); ++i) {
        if (i == s.size() || s[i] == '/') { p.tok.push_back(cur); cur.clear(); continue; }
        if (s[i] == '~') {
            if (i + 1 < s.size() && s[i + 1] == '0') { cur.push_back('~'); ++i; }
            else if (i + 1 < s.size() && s[i + 1] == '1') { cur.push_back('/'); ++i; }
            else { p.ok = false; return p; }
        } else cur.push_back(s[i]);
    }
    return p;
}
inline std::string escape_tok(const std::string& t) {
    std::string r;
    for (char c : t) { if (c == '~') r += "~0"; else if (c == '/') r += "~1"; else r.push_back(c); }
    return r;
}
inline std::string make_ptr(const std::vector<std::string>& toks) {
    std::string r;
    for (auto& t : toks) { r.push_back('/'); r += escape_tok(t); }
    return r;
}
// RFC 6901 array index: "0" or [1-9][0-9]*
inline bool parse_index(const std::string& t, size_t& out) {
    if (t.empty() || t.size() > 18) return false;
    if (t[0] == '0' && t.size() > 1) return false;
    size_t v = 0;
    for (char c : t) { if (c < '0' || c > '9') return false; v = v * 10 + (size_t)(c - '0'); }
    out = v; return true;
}

inline MVal* resolve(MVal& doc, const std::vector<std::string>& tok, size_t n) {
    MVal* cur = &doc;
    for (size_t i = 0; i < n; ++i) {
        if (cur->k == MVal::Obj) { cur = cur->find(tok[i]); if (!cur) return nullptr; }
        else if (cur->k == MVal::Arr) { size_t ix; if (!parse_index(tok[i], ix) || ix >= cur->a.size()) return nullptr; cur = &cur->a[ix]; }
        else return nullptr;
    }
    return cur;
}

inline bool op_add(MVal& doc, const std::vector<std::string>& tok, const MVal& v) {
    if (tok.empty()) { doc = v; return true; }
    MVal* parent = resolve(doc, tok, tok.size() - 1);
    if (!parent) return false;
    const std::string& last = tok.back();
    if (parent->k == MVal::Obj) { MVal copy = v; parent->set(last, std::move(copy)); return true; }
    if (parent->k == MVal::Arr) {
        if (last == "-") { MVal copy = v; parent->a.push_back(std::move(copy)); return true; }
        size_t ix; if (!parse_index(last, ix) || ix > parent->a.size()) return false;
        MVal copy = v; parent->a.insert(parent->a.begin() + (long)ix, std::move(copy)); return true;
    }
    return false;
}
inline bool op_remove(MVal& doc, const std::vector<std::string>& tok) {
    if (tok.empty()) return false; // not generated; kept as failure
    MVal* parent = resolve(doc, tok, tok.size() - 1);
    if (!parent) return false;
    const std::string& last = tok.back();
    if (parent->k == MVal::Obj) return parent->erase(last);
    if (parent->k == MVal::Arr) { size_t ix; if (!parse_index(last, ix) || ix >= parent->a.size()) return false; parent->a.erase(parent->a.begin() + (long)ix); return true; }
    return false;
}

// Applies one operation object.  Returns false on any failure the RFC names.
inline bool apply_op(MVal& doc, const MVal& op) {
    if (op.k != MVal::Obj) return false;
    const MVal* o = op.find("op"); const MVal* p = op.find("path");
    if (!o || o->k != MVal::Str || !p || p->k != MVal::Str) return false;
    Ptr path = parse_ptr(p->s);
    if (!path.ok) return false;
    const std::string& name = o->s;
    if (name == "add") { const MVal* v = op.find("value"); if (!v) return false; return op_add(doc, path.tok, *v); }
    if (name == "remove") return op_remove(doc, path.tok);
    if (name == "replace") {
        const MVal* v = op.find("value"); if (!v) return false;
        MVal* t = resolve(doc, path.tok, path.tok.size()); if (!t) return false;
        MVal copy = *v; *t = std::move(copy); return true;
    }
    if (name == "test") {
        const MVal* v = op.find("value"); if (!v) return false;
        MVal* t = resolve(doc, path.tok, path.tok.size()); if (!t) return false;
        return t->equals(*v);
    }
    if (name == "move" || name == "copy") {
        const MVal* f = op.find("from"); if (!f || f->k != MVal::Str) return false;
        Ptr from = parse_ptr(f->s); if (!from.ok) return false;
        MVal* src = resolve(doc, from.tok, from.tok.size()); if (!src) return false;
        MVal val = *src;
        if (name == "move") {
            // "from" MUST NOT be a proper prefix of "path"
            if (from.tok.size() < path.tok.size()) {
                bool prefix = true;
                for (size_t i = 0; i < from.tok.size(); ++i) if (from.tok[i] != path.tok[i]) { prefix = false; break; }
                if (prefix) return false;
            }
            if (from.tok.empty()) return false;
            if (!op_remove(doc, from.tok)) return false;
        }
        return op_add(doc, path.tok, val);
    }
    return false; // unknown op
}

// Applies a patch atomically: result in `doc` on success, `doc` untouched on failure.
// failed_at receives the index of the failing operation.
inline bool apply_patch(MVal& doc, const MVal& patch, size_t* failed_at = nullptr) {
    if (patch.k != MVal::Arr) { if (failed_at) *failed_at = 0; return false; }
    MVal work = doc;
    for (size_t i = 0; i < patch.a.size(); ++i)
        if (!apply_op(work, patch.a[i])) { if (failed_at) *failed_at = i; return false; }
    doc = std::move(work);
    return true;
}

// ---------- seeded generation of patch histories against an evolving document ----------

inline void collect_paths(const MVal& v, std::vector<std::string>& cur, std::vector<std::vector<std::string>>& out) {
    out.push_back(cur);
    if (v.k == MVal::Obj) for (auto& kv : v.o) { cur.push_back(kv.first); collect_paths(kv.second, cur, out); cur.pop_back(); }
    else if (v.k == MVal::Arr) for (size_t i = 0; i < v.a.size(); ++i) { cur.push_back(std::to_string(i)); collect_paths(v.a[i], cur, out); cur.pop_back(); }
}

inline MVal mk_op(const char* op, const std::string& path) { MVal o = MVal::obj(); o.set("op", MVal::str(op)); o.set("path", MVal::str(path)); return o; }

// One operation that is valid (succeeds) against `doc` with high probability.
inline MVal gen_good_op(Rng& r, const MVal& doc, const GenOpts& go) {
    std::vector<std::vector<std::string>> paths; std::vector<std::string> cur;
    collect_paths(doc, cur, paths);
    GenOpts small = go; small.max_depth = 2; small.max_width = 3; small.root_container = false;
    for (int attempt = 0; attempt < 20; ++attempt) {
        unsigned sel = (unsigned)r.below(12);
        const auto& p = paths[r.below(paths.size())];
        MVal d = doc; // scratch for lookups
        MVal* node = resolve(d, p, p.size());
        if (sel == 0 && r.chance(1, 6)) { // add at the root: replaces the whole document (RFC 6902 4.1)
            MVal o = mk_op("add", ""); o.set("value", gen_value(r, small, 0)); return o;
        }
        if (sel == 9 && r.chance(1, 8)) { // copy / move a sub-value over the whole document
            MVal o = mk_op(!p.empty() && r.coin() ? "move" : "copy", ""); o.set("from", MVal::str(make_ptr(p))); return o;
        }
        if (sel < 4) { // add: new member / insert index / append / existing member (= replace)
            if (node->k == MVal::Obj) {
                std::vector<std::string> q = p;
                if (!node->o.empty() && r.chance(1, 4)) q.push_back(node->o[r.below(node->o.size())].first);
                else q.push_back(gen_string(r, go, true));
                MVal o = mk_op("add", make_ptr(q)); o.set("value", gen_value(r, small, 1)); return o;
            }
            if (node->k == MVal::Arr) {
                std::vector<std::string> q = p;
                if (r.chance(1, 3)) q.push_back("-"); else q.push_back(std::to_string(r.below(node->a.size() + 1)));
                MVal o = mk_op("add", make_ptr(q)); o.set("value", gen_value(r, small, 1)); return o;
            }
            continue;
        }
        if (sel < 6) { if (p.empty()) continue; return mk_op("remove", make_ptr(p)); }
        if (sel < 8) { if (p.empty() && r.chance(3, 4)) continue; MVal o = mk_op("replace", make_ptr(p)); o.set("value", gen_value(r, small, 1)); return o; }
        if (sel == 8) {
            MVal o = mk_op("test", make_ptr(p));
            // RFC 6902 4.6: numbers are equal when numerically equal, whatever their representation
            if (node->k == MVal::Int && node->i > -1000000 && node->i < 1000000 && r.chance(1, 3)) o.set("value", MVal::dbl((double)node->i));
            else if (node->k == MVal::Dbl && node->d > -1e6 && node->d < 1e6 && node->d == (double)(int64_t)node->d && r.chance(1, 3)) o.set("value", MVal::integer((int64_t)node->d));
            else o.set("value", *node);
            return o;
        }
        // move / copy: from p to a new location under some container q
        const auto& q0 = paths[r.below(paths.size())];
        MVal* tgt = resolve(d, q0, q0.size());
        std::vector<std::string> q = q0;
        if (tgt->k == MVal::Obj) { if (!tgt->o.empty() && r.chance(1, 4)) q.push_back(tgt->o[r.below(tgt->o.size())].first); else q.push_back(gen_string(r, go, true)); }
        else if (tgt->k == MVal::Arr) { if (r.chance(1, 3)) q.push_back("-"); else q.push_back(std::to_string(r.below(tgt->a.size() + 1))); }
        else continue;
        bool is_move = sel < 11 ? r.coin() : false;
        if (is_move && p.empty()) continue;
        MVal o = mk_op(is_move ? "move" : "copy", make_ptr(q));
        // keep "from" right after "op" for readability
        o.set("from", MVal::str(make_ptr(p)));
        // validate against the model; accept only if it succeeds
        MVal trial = doc;
        if (apply_op(trial, o)) return o;
    }
    MVal o = mk_op("test", ""); o.set("value", doc); return o;
}

static const char* const fail_classes[] = {
    "test_mismatch", "test_missing_path", "remove_missing", "replace_missing", "add_missing_parent", "index_out_of_range",
    "index_leading_zero", "index_negative", "index_plus", "index_nonnumeric", "dash_remove", "move_missing_from", "copy_missing_from",
    "missing_op", "missing_path", "missing_value", "missing_from", "unknown_op", "bad_pointer_tilde", "bad_pointer_noslash", "move_into_child",
    "index_eq_size_remove", "index_eq_size_replace", "index_eq_size_test", "dash_replace", "dash_test", "dash_from", "op_not_string", "test_type_mismatch",
    "scalar_parent", "bad_pointer_trailing_tilde", "op_not_object", "path_not_string", "from_not_string"
};
constexpr size_t n_fail_classes = sizeof(fail_classes) / sizeof(fail_classes[0]);

// An operation that must fail against `doc`, of the given failure class.  Returns Null MVal if the
// class cannot be built for this document (e.g. no array present).
inline MVal gen_bad_op(Rng& r, const MVal& doc, const std::string& cls) {
    std::vector<std::vector<std::string>> paths; std::vector<std::string> cur;
    collect_paths(doc, cur, paths);
    MVal d = doc;
    std::vector<std::vector<std::string>> arrays, objects;
    for (auto& p : paths) { MVal* n = resolve(d, p, p.size()); if (n->k == MVal::Arr) arrays.push_back(p); else if (n->k == MVal::Obj) objects.push_back(p); }
    auto missing = [&]() { std::vector<std::string> q = paths[r.below(paths.size())]; q.push_back("no_such_member_\x01"); return q; };
    auto arr_with = [&](const std::string& tok, MVal& out, const char* op, bool val) -> bool {
        if (arrays.empty()) return false;
        std::vector<std::string> q = arrays[r.below(arrays.size())]; q.push_back(tok);
        out = mk_op(op, make_ptr(q)); if (val) out.set("value", MVal::integer(1)); return true;
    };
    MVal o;
    if (cls == "test_mismatch") { const auto& p = paths[r.below(paths.size())]; o = mk_op("test", make_ptr(p)); o.set("value", MVal::str("\x02mismatch")); return o; }
    if (cls == "test_missing_path") { o = mk_op("test", make_ptr(missing())); o.set("value", MVal::integer(1)); return o; }
    if (cls == "remove_missing") return mk_op("remove", make_ptr(missing()));
    if (cls == "replace_missing") { o = mk_op("replace", make_ptr(missing())); o.set("value", MVal::integer(1)); return o; }
    if (cls == "add_missing_parent") { auto q = missing(); q.push_back("x"); o = mk_op("add", make_ptr(q)); o.set("value", MVal::integer(1)); return o; }
    if (cls == "index_out_of_range") {
        if (arrays.empty()) return MVal();
        auto q = arrays[r.below(arrays.size())]; MVal* n = resolve(d, q, q.size());
        q.push_back(std::to_string(n->a.size() + 1 + r.below(3)));
        o = mk_op("add", make_ptr(q)); o.set("value", MVal::integer(1)); return o;
    }
    if (cls == "index_leading_zero") { if (!arr_with("00", o, "add", true)) return MVal(); return o; }
    if (cls == "index_negative") { if (!arr_with("-1", o, "add", true)) return MVal(); return o; }
    if (cls == "index_plus") { if (!arr_with("+0", o, "add", true)) return MVal(); return o; }
    if (cls == "index_nonnumeric") { if (!arr_with("x", o, "add", true)) return MVal(); return o; }
    if (cls == "dash_remove") { if (!arr_with("-", o, "remove", false)) return MVal(); return o; }
    if (cls == "move_missing_from") { o = mk_op("move", "/moved_to"); o.set("from", MVal::str(make_ptr(missing()))); if (doc.k != MVal::Obj) return MVal(); return o; }
    if (cls == "copy_missing_from") { o = mk_op("copy", "/copied_to"); o.set("from", MVal::str(make_ptr(missing()))); if (doc.k != MVal::Obj) return MVal(); return o; }
    if (cls == "missing_op") { o = MVal::obj(); o.set("path", MVal::str("")); o.set("value", MVal::integer(1)); return o; }
    if (cls == "missing_path") { o = MVal::obj(); o.set("op", MVal::str("add")); o.set("value", MVal::integer(1)); return o; }
    if (cls == "missing_value") { const auto& p = paths[r.below(paths.size())]; const char* ops[] = {"add", "replace", "test"}; o = mk_op(ops[r.below(3)], make_ptr(p)); return o; }
    if (cls == "missing_from") { o = mk_op(r.coin() ? "move" : "copy", "/x"); return o; }
    if (cls == "unknown_op") { o = mk_op("frobnicate", ""); o.set("value", MVal::integer(1)); return o; }
    if (cls == "bad_pointer_tilde") { o = mk_op("add", "/a~2b"); o.set("value", MVal::integer(1)); return o; }
    if (cls == "bad_pointer_noslash") { o = mk_op("add", "abc"); o.set("value", MVal::integer(1)); return o; }
    if (cls == "index_eq_size_remove" || cls == "index_eq_size_replace" || cls == "index_eq_size_test") {
        if (arrays.empty()) return MVal();
        auto q = arrays[r.below(arrays.size())]; MVal* n = resolve(d, q, q.size());
        q.push_back(std::to_string(n->a.size()));
        const char* opn = cls == "index_eq_size_remove" ? "remove" : cls == "index_eq_size_replace" ? "replace" : "test";
        o = mk_op(opn, make_ptr(q)); if (cls != "index_eq_size_remove") o.set("value", MVal::integer(1)); return o;
    }
    if (cls == "dash_replace") { if (!arr_with("-", o, "replace", true)) return MVal(); return o; }
    if (cls == "dash_test") { if (!arr_with("-", o, "test", true)) return MVal(); return o; }
    if (cls == "dash_from") {
        if (arrays.empty() || doc.k != MVal::Obj) return MVal();
        auto q = arrays[r.below(arrays.size())]; q.push_back("-");
        o = mk_op(r.coin() ? "copy" : "move", "/dash_target"); o.set("from", MVal::str(make_ptr(q))); return o;
    }
    if (cls == "op_not_string") { o = MVal::obj(); o.set("op", MVal::integer(5)); o.set("path", MVal::str("")); o.set("value", MVal::integer(1)); return o; }
    if (cls == "test_type_mismatch") {
        // same text, different JSON type: "1" vs 1, [] vs {}, null vs false
        for (auto& p : paths) {
            MVal* n = resolve(d, p, p.size());
            MVal other;
            if (n->k == MVal::Int) other = MVal::str(std::to_string(n->i));
            else if (n->k == MVal::Arr && n->a.empty()) other = MVal::obj();
            else if (n->k == MVal::Obj && n->o.empty()) other = MVal::arr();
            else if (n->k == MVal::Null) other = MVal::boolean(false);
            else if (n->k == MVal::Bool) other = MVal::integer(n->b ? 1 : 0);
            else continue;
            if (r.chance(1, 2)) { o = mk_op("test", make_ptr(p)); o.set("value", other); return o; }
        }
        return MVal();
    }
    if (cls == "scalar_parent") {
        // a location below a scalar does not exist
        for (auto& p : paths) { MVal* n = resolve(d, p, p.size()); if (n->k != MVal::Arr && n->k != MVal::Obj && r.chance(1, 2)) { auto q = p; q.push_back("0"); o = mk_op("add", make_ptr(q)); o.set("value", MVal::integer(1)); return o; } }
        return MVal();
    }
    if (cls == "op_not_object") { unsigned k = (unsigned)r.below(5); if (k == 0) return MVal::integer(42); if (k == 1) return MVal::str("remove"); if (k == 2) return MVal::boolean(true); if (k == 3) { MVal a = MVal::arr(); a.push(MVal::str("op")); return a; } return MVal::dbl(1.5); }
    if (cls == "path_not_string") { o = MVal::obj(); o.set("op", MVal::str("remove")); o.set("path", MVal::integer(0)); return o; }
    if (cls == "from_not_string") { o = mk_op("copy", "/x"); o.set("from", MVal::integer(0)); if (doc.k != MVal::Obj) return MVal(); return o; }
    if (cls == "bad_pointer_trailing_tilde") { o = mk_op("test", "/a~"); o.set("value", MVal::integer(1)); return o; }
    if (cls == "move_into_child") {
        // move a container into its own descendant
        std::vector<std::vector<std::string>> cands;
        for (auto& p : objects) if (!p.empty()) cands.push_back(p);
        if (cands.empty()) return MVal();
        auto p = cands[r.below(cands.size())]; auto q = p; q.push_back("child");
        o = mk_op("move", make_ptr(q)); o.set("from", MVal::str(make_ptr(p))); return o;
    }
    return MVal();
}

// A history of k operations, each valid against the document as evolved by its predecessors.
inline MVal gen_history(Rng& r, const MVal& doc, size_t k, const GenOpts& go) {
    MVal patch = MVal::arr();
    MVal cur = doc;
    for (size_t i = 0; i < k; ++i) {
        MVal op = gen_good_op(r, cur, go);
        MVal trial = cur;
        if (!apply_op(trial, op)) { op = mk_op("test", ""); op.set("value", cur); trial = cur; }
        cur = std::move(trial);
        patch.a.push_back(std::move(op));
    }
    return patch;
}

}} // namespace sim::pm
