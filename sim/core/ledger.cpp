#include "ledger.hpp"
#include <cstdlib>
#include <cstring>
#include <new>
#include <execinfo.h>
#include <cstdio>
extern "C" void __sanitizer_symbolize_pc(void* pc, const char* fmt, char* out, size_t out_size) __attribute__((weak));

namespace sim { namespace ledger {

namespace {
constexpr uint64_t MAGIC = 0x51ED6E7A11C0FFEEULL;
constexpr uint64_t DEAD  = 0xDEADDEADDEADDEADULL;
struct Hdr {
    uint64_t magic;
    uint64_t size;
    uint64_t index;
    Hdr* prev;
    Hdr* next;
    void* base;      // pointer returned by malloc/posix_memalign
};
static_assert(sizeof(Hdr) == 48, "hdr");

Hdr head = {0, 0, 0, &head, &head, nullptr};
uint64_t g_count = 0, g_live_blocks = 0, g_live_bytes = 0, g_peak = 0;
uint64_t g_fail_at = 0; bool g_fired = false; uint64_t g_fired_index = 0;
uint64_t g_cap = 0, g_cap_hits = 0;
uint64_t g_size_mismatch = 0, g_bad_free = 0;

constexpr int NFR = 16;
struct Site { void* pc[NFR]; int n; };
bool g_rec = false;
Site* g_sites = nullptr; uint64_t g_nsites = 0, g_capsites = 0;

void record() {
    if (g_nsites == g_capsites) {
        uint64_t nc = g_capsites ? g_capsites * 2 : 1024;
        g_sites = (Site*)realloc(g_sites, nc * sizeof(Site));
        g_capsites = nc;
    }
    void* buf[NFR + 2];
    int n = backtrace(buf, NFR + 2);
    Site& s = g_sites[g_nsites++];
    s.n = 0;
    for (int i = 2; i < n && s.n < NFR; ++i) s.pc[s.n++] = buf[i]; // skip record(), allocate()
}

void* allocate(size_t size, size_t align, bool nothrow) {
    uint64_t idx = ++g_count;
    if (g_rec) record();
    bool fail = false;
    if (g_fail_at && idx == g_fail_at) { fail = true; g_fired = true; g_fired_index = idx; g_fail_at = 0; }
    if (!fail && g_cap && g_live_bytes + size > g_cap) { fail = true; ++g_cap_hits; }
    if (fail) {
        if (nothrow) return nullptr;
        throw std::bad_alloc();
    }
    if (align < 16) align = 16;
    size_t hdr = sizeof(Hdr);
    size_t off = (hdr + align - 1) / align * align;
    void* base = nullptr;
    if (align <= 16) base = malloc(off + (size ? size : 1));
    else if (posix_memalign(&base, align, off + (size ? size : 1)) != 0) base = nullptr;
    if (!base) { if (nothrow) return nullptr; throw std::bad_alloc(); }
    char* user = (char*)base + off;
    Hdr* h = (Hdr*)(user - sizeof(Hdr));
    h->magic = MAGIC; h->size = size; h->index = idx; h->base = base;
    h->next = &head; h->prev = head.prev; head.prev->next = h; head.prev = h;
    ++g_live_blocks; g_live_bytes += size;
    if (g_live_bytes > g_peak) g_peak = g_live_bytes;
    return user;
}

void release(void* p, size_t size, bool sized) {
    if (!p) return;
    Hdr* h = (Hdr*)((char*)p - sizeof(Hdr));
    if (h->magic != MAGIC) { ++g_bad_free; if (h->magic == DEAD) abort(); /* double free: let ASan/abort speak */ free(p); return; }
    if (sized && size != h->size) ++g_size_mismatch;
    h->prev->next = h->next; h->next->prev = h->prev;
    --g_live_blocks; g_live_bytes -= h->size;
    h->magic = DEAD;
    free(h->base);
}
} // namespace

uint64_t count() { return g_count; }
uint64_t live_blocks() { return g_live_blocks; }
uint64_t live_bytes() { return g_live_bytes; }
uint64_t peak_bytes() { return g_peak; }
void reset_peak() { g_peak = g_live_bytes; }
Snapshot snap() { return Snapshot{g_count, g_live_blocks, g_live_bytes}; }
void arm(uint64_t nth) { g_fired = false; g_fired_index = 0; g_fail_at = nth ? g_count + nth : 0; }
void disarm() { g_fail_at = 0; }
bool fired() { return g_fired; }
uint64_t fired_index() { return g_fired_index; }
void set_cap(uint64_t c) { g_cap = c; g_cap_hits = 0; }
uint64_t cap_hits() { return g_cap_hits; }
void record_sites(bool on) { g_rec = on; if (on) g_nsites = 0; }
uint64_t site_count() { return g_nsites; }
uint64_t site_hash(uint64_t i) {
    if (i >= g_nsites) return 0;
    uint64_t h = 1469598103934665603ULL;
    int n = g_sites[i].n < 5 ? g_sites[i].n : 5;
    for (int k = 0; k < n; ++k) { h ^= (uint64_t)g_sites[i].pc[k]; h *= 1099511628211ULL; }
    return h;
}
int site_frames(uint64_t i, void** out, int max) {
    if (i >= g_nsites) return 0;
    int n = g_sites[i].n < max ? g_sites[i].n : max;
    for (int k = 0; k < n; ++k) out[k] = g_sites[i].pc[k];
    return n;
}
static void strip_templates(char* s) {
    char* w = s; int depth = 0;
    for (char* r = s; *r; ++r) {
        if (*r == '<') { ++depth; continue; }
        if (*r == '>') { if (depth) --depth; continue; }
        if (!depth) *w++ = *r;
    }
    *w = 0;
    if (char* p = strchr(s, '(')) *p = 0;
}
const char* site_name(uint64_t i, int max_frames) {
    static char buf[4096];
    buf[0] = 0;
    if (max_frames <= 0) max_frames = 3;
    if (i >= g_nsites || !__sanitizer_symbolize_pc) return "?";
    int got = 0; size_t len = 0; char last[1024] = "";
    for (int k = 0; k < g_sites[i].n && got < max_frames; ++k) {
        char tmp[2048];
        __sanitizer_symbolize_pc((char*)g_sites[i].pc[k] - 1, "%f", tmp, sizeof tmp);
        if (!strstr(tmp, "jsoncons::")) continue;
        strip_templates(tmp);
        const char* q = strrchr(tmp, ' ');
        q = q ? q + 1 : tmp;
        if (strncmp(q, "jsoncons::", 10) != 0) { q = strstr(tmp, "jsoncons::"); if (!q) continue; }
        if (!strcmp(q, last)) continue;
        snprintf(last, sizeof last, "%s", q);
        int w = snprintf(buf + len, sizeof buf - len, "%s%s", got ? "<-" : "", q);
        if (w < 0 || (size_t)w >= sizeof buf - len) break;
        len += (size_t)w; ++got;
    }
    return got ? buf : "?";
}
uint64_t leaked_since(uint64_t mark, uint64_t* first_index, uint64_t* bytes) {
    uint64_t n = 0, by = 0, first = 0;
    for (Hdr* h = head.next; h != &head; h = h->next)
        if (h->index > mark) { if (!n || h->index < first) first = h->index; ++n; by += h->size; }
    if (first_index) *first_index = first;
    if (bytes) *bytes = by;
    return n;
}
uint64_t size_mismatches() { return g_size_mismatch; }
uint64_t bad_frees() { return g_bad_free; }

}} // namespace sim::ledger

using namespace sim::ledger;
void* operator new(size_t n) { return allocate(n, 16, false); }
void* operator new[](size_t n) { return allocate(n, 16, false); }
void* operator new(size_t n, const std::nothrow_t&) noexcept { return allocate(n, 16, true); }
void* operator new[](size_t n, const std::nothrow_t&) noexcept { return allocate(n, 16, true); }
void* operator new(size_t n, std::align_val_t a) { return allocate(n, (size_t)a, false); }
void* operator new[](size_t n, std::align_val_t a) { return allocate(n, (size_t)a, false); }
void* operator new(size_t n, std::align_val_t a, const std::nothrow_t&) noexcept { return allocate(n, (size_t)a, true); }
void* operator new[](size_t n, std::align_val_t a, const std::nothrow_t&) noexcept { return allocate(n, (size_t)a, true); }
void operator delete(void* p) noexcept { release(p, 0, false); }
void operator delete[](void* p) noexcept { release(p, 0, false); }
void operator delete(void* p, size_t n) noexcept { release(p, n, true); }
void operator delete[](void* p, size_t n) noexcept { release(p, n, true); }
void operator delete(void* p, const std::nothrow_t&) noexcept { release(p, 0, false); }
void operator delete[](void* p, const std::nothrow_t&) noexcept { release(p, 0, false); }
void operator delete(void* p, std::align_val_t) noexcept { release(p, 0, false); }
void operator delete[](void* p, std::align_val_t) noexcept { release(p, 0, false); }
void operator delete(void* p, size_t n, std::align_val_t) noexcept { release(p, n, true); }
void operator delete[](void* p, size_t n, std::align_val_t) noexcept { release(p, n, true); }
