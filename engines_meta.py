"""Per-check evidence assembly: turns the counters measured by the engines into the coverage object."""
import json

RULES = {
 "C19": "plans = (scenario, seeded input); every plan is executed once fault-free to count its N allocations and then N more times, "
        "the n-th execution failing exactly allocation n (exhaustive over fault positions per plan; plans are sampled by seed). "
        "evaluations = faulted executions. A case is non-trivial when the injected failure actually fired inside the operation; "
        "distinct = distinct (scenario, allocation site = hash of the 5 innermost return addresses of the failing allocation, input-shape hash) triples.",
}
REAL = {
 "C19": {"real_code": ["everything under /repo/include reached by the scenarios (basic_json, parsers, encoders/decoders for JSON/CBOR/MessagePack/UBJSON/BSON/CSV, jsonpointer, jsonpatch, mergepatch, jsonpath, jmespath, jsonschema)"],
         "stubs": ["global operator new/delete (allocation ledger with single-shot failure)", "SimAlloc stateful allocator + block registry", "MVal model value used to compare apply_patch pre/post state"]},
}
ASSUME = {
 "C19": ["fault model is a single failing allocation (the n-th), later allocations succeed - persistent exhaustion is not simulated",
         "allocation indices are stable between the counting run and the faulted runs (checked: a mismatch is reported as a harness error)",
         "inputs are sampled by seed; fault positions are enumerated completely per sampled input",
         "function-local statics are initialised by a warm-up execution before counting"],
}

RULES["C20"] = ("plan = (2-6 shared artefacts: compiled JSON Schemas of five drafts, compiled JSONPath and JMESPath expressions, const json/ojson documents; 2-5 shared input documents; 2-16 tasks x 2-11 read-only operations; scheduler seed, preemption period in {1,4,16,64,256,1024,none}, start skew). Real threads run the tasks; exactly one holds the baton and the seeded scheduler may hand it on at every instrumented control-flow edge (-fsanitize-coverage=trace-pc-guard). Oracles: no ThreadSanitizer report; every result equals the result recomputed single-threaded afterwards on separately built artefacts; shared documents unchanged. "
                "evaluations = operations compared; non-trivial = runs with at least one baton switch inside a library call; distinct = distinct hashes of the (preemption point index, from task, to task, edge id) switch sequence.")
REAL["C20"] = {"real_code": ["jsonschema compile/validate/walk, jsonpath and jmespath evaluation, basic_json lookup/compare/copy/dump/encode_cbor, and the libstdc++ templates they instantiate (std::regex, std::function, containers) - all instrumented and preemptible"],
               "stubs": ["baton scheduler (uninstrumented TU, raw futex): decides who runs", "__cxa_guard_acquire/release/abort wrappers (guarded static initialisers are non-preemptible)", "OS scheduler replaced: real threads exist but never run concurrently"]}
ASSUME["C20"] = ["preemption happens at control-flow edges of instrumented code, not between a load and a store inside one basic block (such lost updates are left to ThreadSanitizer's happens-before analysis)",
                 "code in libstdc++.so / libc (not instrumented) is atomic with respect to the scheduler and invisible to TSan",
                 "libstdc++'s std::ctype<char>::narrow/widen cache race (GCC PR 77704) is suppressed: it is inside libstdc++, reached via std::regex construction",
                 "interleavings are sampled by seed; ThreadSanitizer's detection of far-apart accesses is probabilistic (4 shadow cells), so runs are kept short"]

RULES.update({
 "C03": "plan = (format, input bytes after optional transit faults, decode options); executed under every delivery of a sweep (stream_source chunk 1..64 and boundary sizes x SimStreambuf get-area sizes, iterator sources incl. std::list and istreambuf_iterator, every two-way split and every uniform chunk size for the push parsers, entry points over view/iterators/stream) x access modes (reader+recording visitor, reader+decoder, cursor, cursor+read_to, filter view, staj iterators). evaluations = (mode, delivery) executions. Non-trivial: a delivery whose chunk boundary falls inside the input (chunk < length); distinct = distinct (format+mode, chunk schedule, input hash).",
 "C05": "plans as for C03 but every input passes through 1-4 transit faults (truncation, bit flip, byte set/insert, packet drop/duplication/swap), plus a stream-failure sweep (fail after f delivered bytes, for f over the whole input x {ios_base::failure, runtime_error, premature EOF} x chunk sizes) and a sink-failure sweep for every encoder. Oracle: call returns, only documented channels, no sanitizer report, ledger balanced, bounded reads after EOF. Non-trivial: executions in which an injected stream/sink failure actually fired, or whose delivery splits the input; distinct as for C03 plus (failure offset, kind).",
 "C10": "limits: every (format, container kind) x max_nesting_depth in {0,1,2,3,7,64,1024,5000} x depth limit-1/limit/limit+1 x {reader,cursor,decoder,iterators} x 5 deliveries; claim-and-starve: every way of announcing a length (33 heads over CBOR/MessagePack/UBJSON/BSON) claiming 2^20..2^62 followed by 0..64 bytes, memory meter read at every source read event; stack: deep-value operations on a 512 KiB thread stack (unsanitised build). Non-trivial: all (a limit boundary, a starved claim or a depth-1024+ operation by construction); distinct = distinct (case, mode, delivery, claim exponent) / (operation, kind, depth, policy).",
 "C15": "plan = (document, history of 1-12 operations valid against the evolving document, abort list = one failing operation per (position, RFC failure class)); evaluations = patches applied (the history, each abort variant, diff-law applications). Non-trivial: an application in which an abort was injected, or a diff-law pair; distinct = distinct (document, position, failure class, history) tuples.",
})
_IO = {"real_code": ["jsoncons decoders and their front ends: basic_json_parser/reader/cursor, staj iterators and filter views, json_decoder, csv parser/reader/cursor, cbor/msgpack/ubjson/bson parser/reader/cursor, decode_X entry points, stream_source/chars_source/iterator_source, encoders writing to stream sinks"],
       "stubs": ["SimStreambuf (std::streambuf with plan-chosen get area, EOF, failure)", "SimOutbuf (failing sink)", "SimChannel (packetised transit faults)", "global operator new/delete ledger (memory meter, leak accounting)", "recording visitor"]}
REAL.update({"C03": _IO, "C05": _IO, "C10": _IO})
REAL["C15"] = {"real_code": ["jsonpatch::apply_patch (error_code and throwing overloads), jsonpatch::from_diff, jsonpointer add/add_if_absent/replace/remove/get, basic_json for json and ojson"], "stubs": ["RFC 6902 / RFC 6901 reference model over MVal (sim/core/patchmodel.hpp)"]}
ASSUME.update({
 "C03": ["text inputs whose first four bytes contain NUL/BOM bytes are outside the property's quantifier (BOM-less text) and are skipped and counted",
         "reader-vs-cursor comparison skips CBOR multi-dimensional arrays and binary maps with non-string keys, where the library deliberately surfaces different events (counted); per-mode delivery comparison still applies",
         "inputs are sampled by seed; deliveries are enumerated per input as described in rule"],
 "C05": ["only the I/O-fault facet of C05 is claimed: corrupted/truncated transit of generated and hand-written documents, failing streams and sinks; expression/schema compilers and arbitrary hostile bytes are not covered",
         "bytes handed over inside a read call that then fails are un-acknowledged: a successful decode after a stream failure may equal the decode of any prefix that can have arrived"],
 "C10": ["memory invariant: live bytes <= 256 KiB + 1024 x (bytes delivered + chunk size), read at each source read; stack clause runs in the unsanitised stacksim build with a 512 KiB thread stack (2x margin measured)"],
 "C15": ["the model is written from the RFC text; equality is JSON-value equality with objects as unordered maps; error codes are not compared, only error vs success", "generated values avoid doubles so that text round trips through MVal are exact", "atomicity under allocation failure is decided by C19"],
})

def assumptions(cid):
    return ASSUME.get(cid, [])

# Reach probes that must be non-zero after a complete, clean run at the registered run count.  A sweep that silently
# does nothing (its loop bound computed wrong, its generator never choosing it) otherwise looks like a clean pass.
REQUIRED = {
    "C03": ["exec.reader", "exec.cursor", "exec.decoder", "exec.readto", "exec.filter", "exec.iter", "exec.push", "exec.entry.stream", "exec.entry.iter",
            "crossmode_comparisons", "faults.channel_fired", "boundary.json.after_backslash", "boundary.json.inside_utf8", "boundary.json.between_surrogates",
            "boundary.json.after_exp", "boundary.csv.after_cr", "boundary.cbor.binary", "boundary.bson.binary", "boundary.msgpack.binary", "boundary.ubjson.binary"],
    "C05": ["exec.reader", "exec.cursor", "exec.decoder", "exec.push", "exec.sink", "faults.sink_failure_fired", "faults.sink_failure_with_stream_exceptions", "faults.prefix_consistency_cut", "reach.prefix_is_complete_item", "sink.big_documents",
            "faults.stream_failure_kind1_fired", "faults.stream_failure_kind2_fired", "faults.stream_failure_kind3_fired", "faults.channel_fired",
            "faults.truncation_of_valid_document", "faults.truncation_of_valid_json_text", "reach.truncated_top_level_number", "plans.toon", "plans.json", "plans.csv", "plans.cbor", "plans.bson", "plans.msgpack", "plans.ubjson"],
    "C10": ["claim_checks", "faults.claim_and_starve_fired", "limit_checks", "exec.encoder_nest", "exec.reader", "exec.cursor", "exec.decoder", "exec.iter",
            "stack_ops_at_depth_1024", "stack_ops_at_depth_200000", "op.destroy", "op.copy", "op.compare", "op.dump", "op.parse"],
    "C15": ["faults.abort_injected", "diff_pairs", "patches.history.ok", "patches.abort.abort", "patches.abort_tail.abort", "faults.abort.move_into_child", "faults.abort.test_mismatch"],
    "C19": ["faults_fired", "allocs_total"],
    "C20": ["baton_switches", "preemption_points", "ops_compared", "op.schema.is_valid", "op.jsonpath.evaluate", "op.jmespath.evaluate", "op.doc.copy", "guarded_static_inits_in_concurrent_phase"],
}

def coverage(cid, stats, distinct, samples, runs, wall, total):
    ev = {"C19": stats.get("faults_fired", runs), "C03": stats.get("executions", runs), "C05": stats.get("executions", runs),
          "C10": stats.get("executions", 0) + stats.get("plans", 0), "C15": stats.get("patches_applied", runs), "C20": stats.get("ops_compared", runs)}.get(cid, runs)
    smp = []
    for s in samples[:4]:
        try: smp.append(json.loads(s))
        except Exception: smp.append(s)
    faults = {k[len("faults."):]: v for k, v in stats.items() if k.startswith("faults.") and not k.startswith("faults.parse") and "." not in k[len("faults."):].replace("_", "")}
    cov = {
        "evaluations": int(ev),
        "distinct_nontrivial": len(distinct),
        "rule": RULES.get(cid, ""),
        "samples": smp or ["(no sample emitted)"],
        "exhaustive": False,
        "simulated_runs": int(runs),
        "runs_requested": int(total),
        "runs_per_hour": int(runs * 3600 / wall) if wall > 0 else 0,
        "seeds_per_hour": int(runs * 3600 / wall) if wall > 0 else 0,
        "counters": {k: v for k, v in sorted(stats.items())},
        "components": REAL.get(cid, {}),
    }
    if cid == "C19":
        cov["simulated_time"] = {"unit": "allocation indices", "value": int(stats.get("allocs_total", 0))}
        cov["faults_injected"] = {"alloc_failure_nth": int(stats.get("faults_fired", 0))}
    elif cid == "C15":
        cov["simulated_time"] = {"unit": "patch operations applied", "value": int(stats.get("history_ops", 0))}
        cov["faults_injected"] = {k[len("faults."):]: int(v) for k, v in stats.items() if k.startswith("faults.")}
    elif cid == "C20":
        cov["simulated_time"] = {"unit": "scheduler steps (preemption points executed inside tasks)", "value": int(stats.get("preemption_points", 0))}
        cov["faults_injected"] = {"preemptions_taken (baton switches)": int(stats.get("baton_switches", 0))}
        cov["distinct_interleavings"] = len(distinct)
        cov["inflight_matrix"] = {k[len("inflight."):]: int(v) for k, v in stats.items() if k.startswith("inflight.")}
    elif cid in ("C03", "C05", "C10"):
        cov["simulated_time"] = {"unit": "source read events (logical I/O time)", "value": int(stats.get("io_events", 0))}
        cov["faults_injected"] = {k[len("faults."):]: int(v) for k, v in stats.items() if k.startswith("faults.")}
        cov["reach_probes"] = {k[len("boundary."):]: int(v) for k, v in stats.items() if k.startswith("boundary.")}
        cov["reach_probes"].update({k[len("reach."):]: int(v) for k, v in stats.items() if k.startswith("reach.")})
    cov["required_probes_nonzero"] = {k: int(stats.get(k, 0)) for k in REQUIRED.get(cid, [])}
    return cov
