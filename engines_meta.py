"""Per-check evidence assembly: turns the counters measured by the engines into the coverage object."""
import json

RULES = {
 "C19": "plans = (scenario, seeded input); every plan is executed once fault-free to count its N allocations and then N more times, "
        "the n-th execution failing exactly allocation n (exhaustive over fault positions per plan; plans are sampled by seed). "
        "evaluations = faulted executions. A case is non-trivial when the injected failure actually fired inside the operation; "
        "distinct = distinct (scenario, allocation site = hash of the 5 innermost return addresses of the failing allocation, input-shape hash) triples.",
}
REAL = {
 "C19": {"real_code": ["everything under /repo/include reached by the scenarios (basic_json, parsers, encoders/decoders for JSON/CBOR/MessagePack/UBJSON/BSON/CSV, jsonpointer, jsonpatch, mergepatch, jsonpath, jmespath, jsonschema)"],
         "stubs": ["global operator new/delete (allocation ledger with single-shot failure)", "SimAlloc stateful allocator + block registry", "MVal model value used to compare apply_patch pre/post state"]},
}
ASSUME = {
 "C19": ["fault model is a single failing allocation (the n-th), later allocations succeed - persistent exhaustion is not simulated",
         "allocation indices are stable between the counting run and the faulted runs (checked: a mismatch is reported as a harness error)",
         "inputs are sampled by seed; fault positions are enumerated completely per sampled input",
         "function-local statics are initialised by a warm-up execution before counting"],
}

def assumptions(cid):
    return ASSUME.get(cid, [])

def coverage(cid, stats, distinct, samples, runs, wall, total):
    ev = {"C19": stats.get("faults_fired", runs), "C03": stats.get("executions", runs), "C05": stats.get("executions", runs),
          "C10": stats.get("executions", 0) + stats.get("plans", 0)}.get(cid, runs)
    smp = []
    for s in samples[:4]:
        try: smp.append(json.loads(s))
        except Exception: smp.append(s)
    faults = {k[len("faults."):]: v for k, v in stats.items() if k.startswith("faults.") and not k.startswith("faults.parse") and "." not in k[len("faults."):].replace("_", "")}
    cov = {
        "evaluations": int(ev),
        "distinct_nontrivial": len(distinct),
        "rule": RULES.get(cid, ""),
        "samples": smp or ["(no sample emitted)"],
        "exhaustive": False,
        "simulated_runs": int(runs),
        "runs_requested": int(total),
        "runs_per_hour": int(runs * 3600 / wall) if wall > 0 else 0,
        "seeds_per_hour": int(runs * 3600 / wall) if wall > 0 else 0,
        "counters": {k: v for k, v in sorted(stats.items())},
        "components": REAL.get(cid, {}),
    }
    if cid == "C19":
        cov["simulated_time"] = {"unit": "allocation indices", "value": int(stats.get("allocs_total", 0))}
        cov["faults_injected"] = {"alloc_failure_nth": int(stats.get("faults_fired", 0))}
    elif cid in ("C03", "C05", "C10"):
        cov["simulated_time"] = {"unit": "source read events (logical I/O time)", "value": int(stats.get("io_events", 0))}
        cov["faults_injected"] = {k[len("faults."):]: int(v) for k, v in stats.items() if k.startswith("faults.")}
        cov["reach_probes"] = {k[len("boundary."):]: int(v) for k, v in stats.items() if k.startswith("boundary.")}
    return cov
