#!/usr/bin/env python3
"""Driver for the jsoncons deterministic-simulation checks.

  run.py setup                         build every engine from /repo's working tree
  run.py check <Cxx> [--tier quick|thorough] [--seed N]
  run.py replay <file>                 re-execute a replay file in a fresh process
  run.py determinism <engine> <profile> [--runs N]   same seeds twice, different worker counts, diff hashes

System python3 only, no third-party imports.  Nothing here draws random numbers:
every choice is made inside the engines from (VERIF_SEED, engine, run index).
"""
import hashlib, json, os, re, shutil, signal, subprocess, sys, threading, time, copy, glob, queue

VERIF = os.path.dirname(os.path.abspath(__file__))
REPO = os.environ.get("VERIF_REPO", "/repo")
BUILD = os.path.join(VERIF, "build")
OUT = os.path.join(VERIF, "out")
EVID = os.path.join(VERIF, "evidence")
if os.environ.get("VERIF_SCRATCH"):      # runs against a mutated scratch tree must not clobber evidence / replays of the real tree
    OUT = os.path.join(os.environ["VERIF_SCRATCH"], "out")
    EVID = os.path.join(os.environ["VERIF_SCRATCH"], "evidence")
    BUILD_SCRATCH = os.path.join(os.environ["VERIF_SCRATCH"], "build")
NCPU = int(os.environ.get("VERIF_JOBS", str(os.cpu_count() or 4)))
GUARD = "JSONCONS_VERIF_SIM"

CXX = "clang++"
COMMON = ["-std=c++17", "-O1", "-g", "-fno-omit-frame-pointer", "-fsized-deallocation", "-D" + GUARD,
          "-I" + os.path.join(REPO, "include"), "-Wno-deprecated-declarations", '-DSIM_REPO_ROOT="/repo"']
ASAN = ["-fsanitize=address,undefined", "-fno-sanitize-recover=undefined"]
TSAN = ["-fsanitize=thread"]

# engine -> (list of (source, extra flags)), link flags
ENGINES = {
    "iosim": {
        "tus": [("sim/iosim/main.cpp", ASAN), ("sim/iosim/fmt_json.cpp", ASAN), ("sim/iosim/fmt_csv.cpp", ASAN), ("sim/iosim/fmt_cbor.cpp", ASAN),
                ("sim/iosim/fmt_msgpack.cpp", ASAN), ("sim/iosim/fmt_ubjson.cpp", ASAN), ("sim/iosim/fmt_bson.cpp", ASAN), ("sim/iosim/fmt_toon.cpp", ASAN),
                ("sim/core/worker.cpp", ASAN), ("sim/core/ledger.cpp", ASAN)],
        "link": ASAN,
    },
    "threadsim": {
        "tus": [("sim/threadsim/work.cpp", TSAN + ["-fsanitize-coverage=trace-pc-guard"]), ("sim/threadsim/sched.cpp", []), ("sim/core/worker.cpp", TSAN)],
        "link": TSAN + ["-pthread", "-Wl,--wrap=__cxa_guard_acquire", "-Wl,--wrap=__cxa_guard_release", "-Wl,--wrap=__cxa_guard_abort"],
    },
    "patchsim": {
        "tus": [("sim/patchsim/main.cpp", ASAN), ("sim/core/worker.cpp", ASAN)],
        "link": ASAN,
    },
    "stacksim": {   # deliberately unsanitised: measures real stack use on a small thread stack
        "tus": [("sim/stacksim/main.cpp", []), ("sim/core/worker.cpp", [])],
        "link": ["-pthread"],
    },
    "allocsim": {
        "resume": True,
        "tus": [("sim/allocsim/main.cpp", ASAN), ("sim/allocsim/scn_core.cpp", ASAN), ("sim/allocsim/scn_fmt.cpp", ASAN),
                ("sim/allocsim/scn_query.cpp", ASAN), ("sim/allocsim/scn_schema.cpp", ASAN), ("sim/allocsim/scn_stateful.cpp", ASAN), ("sim/allocsim/scn_typed.cpp", ASAN),
                ("sim/core/worker.cpp", ASAN), ("sim/core/ledger.cpp", ASAN)],
        "link": ASAN,
    },
}

def kill_group(p):
    """Kill a worker together with the children it forked (fork-per-run engines): a hung grandchild would keep the pipes open."""
    try: os.killpg(p.pid, signal.SIGKILL)
    except (ProcessLookupError, PermissionError, OSError):
        try: p.kill()
        except Exception: pass

def log(*a):
    print(*a, file=sys.stderr, flush=True)

# ---------------------------------------------------------------- build

def tree_hash(paths):
    h = hashlib.sha256()
    for root in paths:
        if os.path.isfile(root):
            h.update(root.encode()); h.update(open(root, "rb").read()); continue
        for d, dirs, files in os.walk(root):
            dirs.sort()
            for f in sorted(files):
                p = os.path.join(d, f)
                h.update(p.encode())
                with open(p, "rb") as fh:
                    h.update(fh.read())
    return h.hexdigest()[:16]

def build_engine(name, quiet=False):
    """Compile engine `name` against /repo's current working tree.  Cached by content hash of
    /repo/include + /verif/sim + flags, so an unchanged tree costs nothing and a changed one always rebuilds."""
    spec = ENGINES[name]
    key = tree_hash([os.path.join(REPO, "include"), os.path.join(VERIF, "sim", "core"), os.path.join(VERIF, "sim", name)])
    key = hashlib.sha256((key + repr(spec) + repr(COMMON) + CXX).encode()).hexdigest()[:16]
    broot = BUILD_SCRATCH if (os.environ.get("VERIF_SCRATCH") and os.environ.get("VERIF_REPO")) else BUILD
    bdir = os.path.join(broot, "%s-%s" % (name, key))
    exe = os.path.join(bdir, "sim_" + name)
    if os.path.exists(exe):
        return exe
    # drop stale builds of this engine (disk is limited)
    for old in glob.glob(os.path.join(broot, name + "-*")):
        shutil.rmtree(old, ignore_errors=True)
    os.makedirs(bdir, exist_ok=True)
    t0 = time.time()
    procs = []
    objs = []
    sem = threading.Semaphore(NCPU)
    errors = []
    def compile_one(src, flags, obj):
        with sem:
            cmd = [CXX] + COMMON + flags + ["-c", os.path.join(VERIF, src), "-o", obj]
            r = subprocess.run(cmd, stdout=subprocess.PIPE, stderr=subprocess.STDOUT, text=True)
            if r.returncode != 0:
                errors.append((src, r.stdout))
    threads = []
    for src, flags in spec["tus"]:
        obj = os.path.join(bdir, src.replace("/", "_") + ".o")
        objs.append(obj)
        t = threading.Thread(target=compile_one, args=(src, flags, obj)); t.start(); threads.append(t)
    for t in threads: t.join()
    if errors:
        for src, out in errors:
            log("BUILD FAILED: %s\n%s" % (src, out[-6000:]))
        shutil.rmtree(bdir, ignore_errors=True)
        raise SystemExit(3)
    cmd = [CXX] + spec["link"] + objs + ["-o", exe + ".tmp"] + spec.get("libs", [])
    r = subprocess.run(cmd, stdout=subprocess.PIPE, stderr=subprocess.STDOUT, text=True)
    if r.returncode != 0:
        log("LINK FAILED:\n" + r.stdout[-6000:])
        shutil.rmtree(bdir, ignore_errors=True)
        raise SystemExit(3)
    os.rename(exe + ".tmp", exe)
    for o in objs:
        try: os.remove(o)
        except OSError: pass
    if not quiet:
        log("built %s in %.0fs -> %s" % (name, time.time() - t0, exe))
    return exe

# ---------------------------------------------------------------- crash classification

FRAME_RE = re.compile(r"#\d+ (?:0x[0-9a-f]+ in )?(.+?) (/[^\s:]+):(\d+)")

def clean_func(f):
    f = re.sub(r"<[^<>]*>", "", f)
    for _ in range(6):
        f = re.sub(r"<[^<>]*>", "", f)
    f = re.sub(r"\(.*\)$", "", f)
    return f.strip()

def repo_frames(text, limit=3):
    """First `limit` stack frames that lie in /repo/include, as cleaned function names."""
    out = []
    for m in FRAME_RE.finditer(text):
        if "/include/jsoncons" in m.group(2):
            fn = clean_func(m.group(1))
            if not out or out[-1] != fn:
                out.append(fn)
            if len(out) >= limit: break
    return out

def crash_excerpt(err, n=1500):
    """The informative part of a sanitizer / terminate report: from its first marker on."""
    for marker in ("SIM-TERMINATE", "ERROR: AddressSanitizer", "runtime error:", "WARNING: ThreadSanitizer", "SIM-SEGV"):
        i = err.find(marker)
        if i >= 0:
            return err[max(0, i - 120):i + n]
    return err[-n:]

def classify_crash(rc, err):
    """Map a dead worker (exit code + stderr) to a stable violation class."""
    if "SIM-TERMINATE" in err:
        fr = repo_frames(err[err.index("SIM-TERMINATE"):], 2)
        return "terminate:" + "<-".join(fr) if fr else "terminate:unknown"
    m = re.search(r"ERROR: AddressSanitizer: ([a-z\-A-Z]+)", err)
    if m:
        fr = repo_frames(err[m.start():], 1)
        return "asan:%s:%s" % (m.group(1), fr[0] if fr else "unknown")
    m = re.search(r"([^\s:]+):(\d+):\d+: runtime error: (.*)", err)
    if m:
        msg = re.sub(r"0x[0-9a-f]+", "ADDR", m.group(3))
        msg = re.sub(r"\d+", "N", msg)[:80]
        return "ubsan:%s:%s:%s" % (os.path.basename(m.group(1)), m.group(2), msg)
    if "ThreadSanitizer" in err:
        m = re.search(r"WARNING: ThreadSanitizer: ([a-z \-]+)", err)
        fr = repo_frames(err, 1)
        return "tsan:%s:%s" % (m.group(1).strip() if m else "report", fr[0] if fr else "unknown")
    if "SIM-SEGV" in err or rc in (-11, 79):
        return "segv"
    if rc == -9:
        return "killed"
    return "crash:rc=%s" % rc

# ---------------------------------------------------------------- workers

class Worker:
    """One `batch` process covering run indices start, start+stride, ...  Restarted after a crash."""
    def __init__(self, exe, profile, seed, start, stride, count, wid, outdir, hashes=False, timeout=120, resumable=False):
        self.resumable = resumable
        self.exe, self.profile, self.seed = exe, profile, seed
        self.start, self.stride, self.count = start, stride, count
        self.wid, self.outdir, self.hashes, self.timeout = wid, outdir, hashes, timeout
        self.done = 0            # runs finished (relative)
        self.stats = {}
        self.distinct = set()
        self.samples = []
        self.violations = []     # (idx, result dict)
        self.crashes = []        # (idx, sub, class, stderr tail)
        self.hash_lines = {}
        self.restarts = 0

    def run(self, deadline):
        next_k = 0
        resume_sub = 0
        while next_k < self.count and time.time() < deadline:
            start = self.start + next_k * self.stride
            cmd = [self.exe, "batch", self.profile, str(self.seed), str(start), str(self.stride), str(self.count - next_k)]
            if self.hashes: cmd.append("--hashes")
            if resume_sub: cmd += ["--resume-sub", str(resume_sub)]
            errpath = os.path.join(self.outdir, "w%d.err" % self.wid)
            with open(errpath, "wb") as ef:
                p = subprocess.Popen(cmd, stdout=subprocess.PIPE, stderr=ef, text=True, errors="replace", bufsize=1, start_new_session=True)
                last_idx, last_sub, finished = None, 0, False
                last_progress = [time.time()]
                killed = [False]
                def watchdog():
                    while p.poll() is None:
                        if time.time() - last_progress[0] > self.timeout or time.time() > deadline + 5:
                            killed[0] = True
                            kill_group(p); return
                        time.sleep(0.5)
                wt = threading.Thread(target=watchdog, daemon=True); wt.start()
                for line in p.stdout:
                    c = line[:1]
                    if c == "B":
                        parts = line.split()
                        idx = int(parts[1]); sub = int(parts[2])
                        if idx != last_idx:
                            last_idx = idx
                        last_sub = sub
                        last_progress[0] = time.time()
                    elif c == "V":
                        sp = line.split(" ", 2)
                        self.violations.append((int(sp[1]), json.loads(sp[2])))
                    elif c == "H":
                        sp = line.split()
                        self.hash_lines[int(sp[1])] = sp[2]
                    elif c == "S":
                        for k, v in json.loads(line[2:]).items():
                            if k.startswith("max."): self.stats[k] = max(self.stats.get(k, 0), v)
                            else: self.stats[k] = self.stats.get(k, 0) + v
                    elif c == "D":
                        self.distinct.update(line.split()[1:])
                    elif c == "X":
                        if len(self.samples) < 3: self.samples.append(line[2:].strip())
                    elif c == "E":
                        finished = True
                    elif c == "T":
                        pass
                p.wait()
            if finished:
                return
            if killed[0] and time.time() > deadline:
                return
            # crashed or hung inside run last_idx
            err = open(errpath, "r", errors="replace").read()
            cls = "timeout" if killed[0] else classify_crash(p.returncode, err)
            if last_idx is None:
                self.crashes.append((None, 0, "startup:" + cls, err[-3000:]))
                return
            self.crashes.append((last_idx, last_sub, cls, err[-6000:]))
            self.restarts += 1
            k = (last_idx - self.start) // self.stride
            # allocsim-style engines can resume inside the run after the faulting sub-step
            if self.resumable and last_sub > 0 and self.restarts < 400:
                next_k = k; resume_sub = last_sub + 1
            else:
                next_k = k + 1; resume_sub = 0
            if self.restarts > 2000:
                return

class Server:
    """A `serve` process executing one plan per request; restarted when a plan kills it."""
    def __init__(self, exe, outdir, timeout=120):
        self.exe, self.outdir, self.timeout = exe, outdir, timeout
        self.p = None
        self.errpath = os.path.join(outdir, "serve.err")
    def _start(self):
        self.ef = open(self.errpath, "wb")
        self.p = subprocess.Popen([self.exe, "serve"], stdin=subprocess.PIPE, stdout=subprocess.PIPE, stderr=self.ef, text=True, errors="replace", bufsize=1, start_new_session=True)
    def close(self):
        if self.p:
            try: self.p.stdin.close()
            except Exception: pass
            kill_group(self.p)
            self.p.wait(); self.p = None
            self.ef.close()
    def run(self, plan, timeout=None):
        """Returns result dict with keys ok, class, detail, hash, plan."""
        timeout = timeout or self.timeout
        if self.p is None or self.p.poll() is not None:
            self.close(); self._start()
        try:
            self.p.stdin.write(json.dumps(plan) + "\n"); self.p.stdin.flush()
        except BrokenPipeError:
            self.close(); self._start()
            self.p.stdin.write(json.dumps(plan) + "\n"); self.p.stdin.flush()
        sub = 0
        published = None
        timed_out = [False]
        def on_timeout():
            timed_out[0] = True; kill_group(self.p)
        timer = threading.Timer(timeout, on_timeout)
        timer.start()
        try:
            while True:
                line = self.p.stdout.readline()
                if not line:
                    break
                if line[:1] == "B":
                    sub = int(line.split()[2])
                elif line[:1] == "P":
                    published = json.loads(line[2:])
                elif line[:1] == "R":
                    return json.loads(line[2:])
        finally:
            timer.cancel()
        rc = self.p.wait()
        self.ef.close()
        err = open(self.errpath, "r", errors="replace").read()
        self.p = None
        cls = "timeout" if timed_out[0] else classify_crash(rc, err)
        return {"ok": False, "class": cls, "detail": crash_excerpt(err), "hash": 0, "plan": published or plan, "crash": True, "sub": sub}

def fresh_replay(exe, path, timeout=300):
    """Execute a replay file in a fresh process; returns (class or None, detail)."""
    p = subprocess.Popen([exe, "replay", path], stdout=subprocess.PIPE, stderr=subprocess.PIPE, text=True, errors="replace", start_new_session=True)
    try:
        out, err = p.communicate(timeout=timeout)
    except subprocess.TimeoutExpired:
        kill_group(p); p.wait()
        return "timeout", ""
    class R: pass
    r = R(); r.stdout, r.stderr, r.returncode = out, err, p.returncode
    for line in r.stdout.splitlines():
        if line[:1] == "R":
            d = json.loads(line[2:])
            return (None if d["ok"] else d["class"]), d.get("detail", "")
    if r.returncode != 0:
        return classify_crash(r.returncode, r.stderr), crash_excerpt(r.stderr)
    return None, ""

# ---------------------------------------------------------------- shrinking

DATA_KEYS = {"doc", "doc2", "patch", "schema", "instance"}      # embedded JSON documents: full structural shrinking
NOSHRINK = {"engine", "scenario", "format", "mode", "seed", "idx", "profile", "check", "n", "max_n", "kind"}

def _walk(node, path, in_data):
    """Pre-order (kind, path, in_data) for every shrinkable node of a plan."""
    if isinstance(node, dict):
        if in_data: yield ("dict", path, True)
        for k, v in list(node.items()):
            if not in_data and k in NOSHRINK: continue
            yield from _walk(v, path + [k], in_data or k in DATA_KEYS)
    elif isinstance(node, list):
        yield ("list", path, in_data)
        for i, v in enumerate(node):
            yield from _walk(v, path + [i], in_data)
    elif isinstance(node, str):
        yield ("str", path, in_data)
    elif isinstance(node, bool):
        return
    elif isinstance(node, int):
        yield ("int", path, in_data)

def _get(plan, path):
    node = plan
    for k in path: node = node[k]
    return node

def set_path(plan, path, value):
    node = plan
    for k in path[:-1]: node = node[k]
    node[path[-1]] = value

def shrink(plan, same, budget=300):
    """Greedy/ddmin-style minimisation over the plan structure.  `same(plan)` re-executes a candidate and
    tells whether the same violation class persists.  Engines interpret plans robustly (indices taken
    modulo, chunk lists clipped), so every candidate is a well-formed plan."""
    best = copy.deepcopy(plan)
    used = [0]
    def attempt(cand):
        if used[0] >= budget: return False
        used[0] += 1
        try:
            return same(cand)
        except Exception:
            return False
    progress = True
    while progress and used[0] < budget:
        progress = False
        for kind, path, in_data in list(_walk(best, [], False)):
            if used[0] >= budget: break
            try:
                node = _get(best, path)
            except (KeyError, IndexError, TypeError):
                continue
            key = path[-1] if path else ""
            if kind == "list" and isinstance(node, list) and node:
                chunk = max(1, len(node) // 2)
                while chunk >= 1 and used[0] < budget:
                    i = 0
                    while i < len(node) and used[0] < budget:
                        cand = copy.deepcopy(best)
                        del _get(cand, path)[i:i + chunk]
                        if attempt(cand):
                            best = cand; node = _get(best, path); progress = True
                        else:
                            i += chunk
                    if chunk == 1: break
                    chunk //= 2
            elif kind == "dict" and isinstance(node, dict):
                for k in list(node.keys()):
                    if used[0] >= budget: break
                    cand = copy.deepcopy(best)
                    del _get(cand, path)[k]
                    if attempt(cand):
                        best = cand; node = _get(best, path); progress = True
                # replace a nested container by null
                if path and len(path) > 1 and node:
                    cand = copy.deepcopy(best); set_path(cand, path, None)
                    if attempt(cand):
                        best = cand; progress = True
            elif kind == "str" and isinstance(node, str) and len(node) > 0:
                hexish = str(key).endswith("_hex")
                if not (in_data or hexish or str(key).endswith("_text") or key in ("csv", "key", "ptr")): continue
                if in_data and len(node) > 1:
                    cand = copy.deepcopy(best); set_path(cand, path, node[:1])
                    if attempt(cand):
                        best = cand; node = node[:1]; progress = True; continue
                step = 2 if hexish else 1
                chunk = max(1, (len(node) // step) // 2)
                while chunk >= 1 and used[0] < budget and len(node) > step:
                    i = 0
                    while i < len(node) // step and used[0] < budget:
                        cand = copy.deepcopy(best)
                        t = node[:i * step] + node[(i + chunk) * step:]
                        set_path(cand, path, t)
                        if attempt(cand):
                            best = cand; node = t; progress = True
                        else:
                            i += chunk
                    if chunk == 1: break
                    chunk //= 2
            elif kind == "int" and isinstance(node, int) and not isinstance(node, bool) and abs(node) > 1:
                for v in (0, 1, node // 2):
                    if v == node: continue
                    cand = copy.deepcopy(best); set_path(cand, path, v)
                    if attempt(cand):
                        best = cand; progress = True; break
    return best, used[0]

# ---------------------------------------------------------------- known findings

def load_known():
    p = os.path.join(VERIF, "known_findings.json")
    if not os.path.exists(p): return []
    return json.load(open(p)).get("findings", [])

def match_known(known, prop, cls, plan, detail=""):
    """An `open` entry matches when property, class pattern, (optional) plan predicates and (optional)
    detail pattern all match: entries name one specific failing input / call site, nothing broader."""
    for k in known:
        if k.get("status") != "open" or k.get("property") != prop: continue
        if not re.fullmatch(k["class"], cls, re.S): continue
        ok = True
        for key, pat in k.get("where", {}).items():
            if not re.fullmatch(pat, str(plan.get(key, "")), re.S): ok = False; break
        if ok and k.get("detail") and not re.search(k["detail"], detail or "", re.S): ok = False
        if ok: return k
    return None

# ---------------------------------------------------------------- checks

CHECKS = {
    # id: level, parts = [(engine, profile, quick runs, thorough runs)], wall caps per tier
    "C03": dict(level="exploration", parts=[("iosim", "c03", 21000, 700000)], cap=(600, 3000), timeout=120),
    "C05": dict(level="exploration", parts=[("iosim", "c05", 14000, 500000)], cap=(600, 3000), timeout=120),
    "C10": dict(level="exploration", parts=[("iosim", "c10", 1400, 14000), ("stacksim", "stack", 264, 1056)], cap=(600, 3000), timeout=300),
    "C15": dict(level="fault_enumeration", parts=[("patchsim", "c15", 2400, 120000)], cap=(600, 3000), timeout=120),
    "C20": dict(level="exploration", parts=[("threadsim", "c20", 2400, 80000)], cap=(600, 3000), timeout=60),
    "C19": dict(level="fault_enumeration", parts=[("allocsim", "all", 1083 + 80 * 80, 1083 + 80 * 1500)], cap=(600, 3000), timeout=120),
}

def write_evidence(cid, tier, seed, level, coverage, assumptions, wall, violations):
    os.makedirs(EVID, exist_ok=True)
    ev = {"property_id": cid, "tier": tier, "seed": seed, "level": level, "coverage": coverage,
          "assumptions": assumptions, "wall_s": round(wall, 2), "violations": violations}
    tmp = os.path.join(EVID, cid + ".json.tmp")
    json.dump(ev, open(tmp, "w"), indent=1, sort_keys=True)
    os.replace(tmp, os.path.join(EVID, cid + ".json"))

def run_batch(exe, profile, seed, total, cap_s, outdir, workers=None, hashes=False, timeout=120, resumable=False):
    workers = workers or NCPU
    os.makedirs(outdir, exist_ok=True)
    per = (total + workers - 1) // workers
    ws = [Worker(exe, profile, seed, w, workers, min(per, (total - w + workers - 1) // workers), w, outdir, hashes, timeout, resumable) for w in range(workers)]
    ws = [w for w in ws if w.count > 0]
    deadline = time.time() + cap_s
    ts = [threading.Thread(target=w.run, args=(deadline,)) for w in ws]
    for t in ts: t.start()
    for t in ts: t.join()
    return ws

def do_check(cid, tier, seed):
    import engines_meta as meta
    spec = CHECKS[cid]
    t0 = time.time()
    outdir = os.path.join(OUT, cid)
    shutil.rmtree(outdir, ignore_errors=True)
    os.makedirs(outdir, exist_ok=True)
    for old in glob.glob(os.path.join(OUT, "replays", cid + "-*.json")):
        os.remove(old)
    cap = spec["cap"][0 if tier == "quick" else 1]
    stats, distinct, samples = {}, set(), []
    found = []   # (engine, exe, class, plan, detail)
    total_all = 0
    for pi, (engine, profile, nq, nt) in enumerate(spec["parts"]):
        exe = build_engine(engine)
        total = int(os.environ.get("VERIF_RUNS", nq if tier == "quick" else nt))
        total_all += total
        ws = run_batch(exe, profile, seed, total, cap, os.path.join(outdir, "p%d" % pi), timeout=spec.get("timeout", 120), resumable=ENGINES[engine].get("resume", False))
        for w in ws:
            for k, v in w.stats.items():
                if k.startswith("max."): stats[k] = max(stats.get(k, 0), v)
                else: stats[k] = stats.get(k, 0) + v
            distinct |= set(engine + ":" + d for d in w.distinct)
            samples += w.samples[:2]
            for idx, r in w.violations:
                found.append((engine, exe, r["class"], r["plan"], r["detail"]))
            for idx, sub, cls, err in w.crashes:
                if idx is None:
                    log("worker failed at startup: " + cls + "\n" + err); raise SystemExit(2)
                dumped = subprocess.run([exe, "dump", profile, str(seed), str(idx)], stdout=subprocess.PIPE, stderr=subprocess.PIPE, text=True, errors="replace")
                try:
                    plan = json.loads(dumped.stdout)
                except ValueError:
                    print("HARNESS-ERROR plan generation itself fails for %s idx %d: %s" % (profile, idx, crash_excerpt(dumped.stderr, 600))); rc_gen_fail = True
                    found.append((engine, exe, "harness:generate-crashed", {"idx": idx}, crash_excerpt(dumped.stderr, 600))); continue
                if sub: plan["sub"] = sub
                found.append((engine, exe, cls, plan, crash_excerpt(err)))
        stats["worker_restarts"] = stats.get("worker_restarts", 0) + sum(w.restarts for w in ws)
    known = load_known()
    rc = 0
    reported = {}
    known_hit = {}
    servers = {}
    nd_seen = {}
    extra_classes = set()
    try:
        for engine, exe, cls, plan, detail in found:
            if cls.startswith("harness:"):
                print("HARNESS-ERROR %s %s" % (cls, detail)); rc = max(rc, 2); continue
            k = match_known(known, cid, cls, plan, detail)
            if k is not None:
                known_hit.setdefault(k["id"], [k, 0])[1] += 1
                continue
            if cls in reported:
                reported[cls]["count"] += 1; continue
            if len(reported) >= int(os.environ.get("VERIF_MAX_CLASSES", "8")):
                # one defect often shows up under many site-specific classes; the first few are minimised and gated,
                # the rest are only counted (they still make the check fail through the ones already reported)
                extra_classes.add(cls); continue
            if engine not in servers:
                servers[engine] = Server(exe, outdir, timeout=spec.get("timeout", 120))
            srv = servers[engine]
            # gate (a): same plan, second execution, same class
            r2 = srv.run(plan)
            if r2["ok"] or r2["class"] != cls:
                nd_seen[cls] = nd_seen.get(cls, 0) + 1
                if nd_seen[cls] <= 3:
                    nd = os.path.join(OUT, "replays", "%s-nondet-%s-%d.json" % (cid, hashlib.sha256(cls.encode()).hexdigest()[:8], nd_seen[cls]))
                    os.makedirs(os.path.dirname(nd), exist_ok=True)
                    json.dump({"property": cid, "engine": engine, "class": cls, "detail": detail, "seed": seed, "plan": plan}, open(nd, "w"), indent=1)
                    print("HARNESS-ERROR nondeterministic violation: first %s then %s (plan idx %s, kept as %s)" % (cls, r2.get("class") if not r2["ok"] else "ok", plan.get("idx"), nd))
                rc = max(rc, 2); continue
            plan = r2.get("plan") or plan      # engines narrow a sweep to the one failing element
            # a candidate may not take much longer than the original did, and minimisation as a whole is bounded
            t_first = time.time(); srv.run(plan); t_orig = time.time() - t_first
            cand_timeout = min(spec.get("timeout", 120), max(5.0, 4 * t_orig))
            shrink_deadline = time.time() + float(os.environ.get("VERIF_SHRINK_WALL", "150"))
            def same(c):
                if time.time() > shrink_deadline: return False
                r = srv.run(c, timeout=cand_timeout)
                return (not r["ok"]) and r["class"] == cls
            if plan.get("noshrink"): small, used = plan, 0
            else: small, used = shrink(plan, same, budget=int(os.environ.get("VERIF_SHRINK", "300")))
            rdet = srv.run(small)
            k = match_known(known, cid, cls, small, rdet.get("detail", detail))
            if k is not None:
                known_hit.setdefault(k["id"], [k, 0])[1] += 1
                continue
            rfile = os.path.join(OUT, "replays", "%s-%s.json" % (cid, hashlib.sha256((cls + json.dumps(small, sort_keys=True)).encode()).hexdigest()[:12]))
            os.makedirs(os.path.dirname(rfile), exist_ok=True)
            json.dump({"property": cid, "engine": engine, "class": cls, "detail": rdet.get("detail", detail), "seed": seed,
                       "shrink_executions": used, "plan": small, "original_plan": plan}, open(rfile, "w"), indent=1)
            # gate (b): fresh process
            c3, d3 = fresh_replay(exe, rfile)
            if c3 != cls:
                print("HARNESS-ERROR replay file does not reproduce in a fresh process: %s vs %s (%s)" % (cls, c3, rfile)); rc = max(rc, 2); continue
            reported[cls] = {"count": 1, "replay": rfile, "detail": rdet.get("detail", detail)}
            print("VIOLATION property=%s replay=%s class=%s" % (cid, rfile, cls))
            print("  detail: " + (rdet.get("detail", detail) or "").replace("\n", "\n  ")[:1500])
            rc = max(rc, 1)
    finally:
        for srv in servers.values(): srv.close()
    for c, n in sorted(nd_seen.items()):
        if n > 3: print("HARNESS-ERROR nondeterministic violation %s: %d occurrences in all" % (c, n))
    if extra_classes:
        print("(%d further violation class(es) not minimised: %s ...)" % (len(extra_classes), ", ".join(sorted(extra_classes))[:600]))
    for kid, (k, cnt) in sorted(known_hit.items()):
        print("KNOWN-FINDING: property=%s %s [%s, hit %d times]" % (cid, k["what"], kid, cnt))
    # a violation that passed both gates decides the exit status (1); gate failures alone mean harness trouble (2)
    if reported: rc = 1
    # self-check of reach: only meaningful for a complete clean run at the registered size
    if rc == 0 and "VERIF_RUNS" not in os.environ:
        dead = [k for k in meta.REQUIRED.get(cid, []) if not stats.get(k)]
        if dead:
            print("HARNESS-ERROR reach probe(s) stuck at zero, the corresponding sweep did not run: " + ", ".join(dead)); rc = 2
    wall = time.time() - t0
    runs = stats.get("runs", 0)
    coverage = meta.coverage(cid, stats, distinct, samples, runs, wall, total_all)
    write_evidence(cid, tier, seed, spec["level"], coverage, meta.assumptions(cid), wall, len(reported))
    print("%s %s: %d runs, %d distinct non-trivial, %d violation class(es), %d known finding(s), %.0fs" %
          (cid, tier, runs, len(distinct), len(reported), len(known_hit), wall))
    return rc

def main():
    a = sys.argv[1:]
    if not a:
        print(__doc__); return 2
    if a[0] == "setup":
        for e in ENGINES: build_engine(e)
        return 0
    if a[0] == "check":
        cid = a[1]
        tier = os.environ.get("VERIF_TIER", "quick")
        seed = int(os.environ.get("VERIF_SEED", "20261004"))
        i = 2
        while i < len(a):
            if a[i] == "--tier": tier = a[i + 1]; i += 2
            elif a[i] == "--seed": seed = int(a[i + 1]); i += 2
            else: i += 1
        return do_check(cid, tier, seed)
    if a[0] == "replay":
        d = json.load(open(a[1]))
        exe = build_engine(d["engine"])
        c, det = fresh_replay(exe, a[1])
        if c is None:
            print("replay: no violation"); return 0
        print("VIOLATION property=%s replay=%s class=%s" % (d.get("property"), a[1], c)); print("  detail: " + det[:1500]); return 1
    if a[0] == "determinism":
        eng, profile = a[1], a[2]
        runs = int(a[a.index("--runs") + 1]) if "--runs" in a else 2000
        seed = int(os.environ.get("VERIF_SEED", "20261004"))
        exe = build_engine(eng)
        res = []
        for workers in (16, 3):
            ws = run_batch(exe, profile, seed, runs, 3600, os.path.join(OUT, "det-%s-%d" % (eng, workers)), workers=workers, hashes=True)
            h = {}
            for w in ws: h.update(w.hash_lines)
            res.append(h)
        diff = [i for i in res[0] if res[0].get(i) != res[1].get(i)]
        missing = set(res[0]) ^ set(res[1])
        print("determinism %s/%s: %d runs x2 (16 and 3 workers), %d differing hashes, %d missing" % (eng, profile, len(res[0]), len(diff), len(missing)))
        return 0 if not diff and not missing else 2
    print(__doc__); return 2

if __name__ == "__main__":
    sys.path.insert(0, VERIF)
    sys.exit(main())
